"""Driver shared by all checks: parallel execution, three-valued verdicts, evidence, replay files,
known findings.

A check module (hv/checks/cXX.py) provides

    PID, RULE, ASSUMPTIONS
    plan(tier, seed)            -> list of picklable tasks
    work(task)                  -> Partial (runs in a worker process, drives the real library)
    finalize(total, tier, seed) -> None   (optional: cross-task oracle, reach floors)
    replay(case)                -> list of Violation dicts for one recorded case

Verdicts: held (exit 0) / violated (exit 1, `VIOLATION property=<id> replay=<path>`) /
inconclusive (exit 2, `INCONCLUSIVE property=<id> reason=...`).
"""
import collections
import concurrent.futures as cf
import hashlib
import importlib
import json
import os
import sys
import time
import traceback

from . import env

MAX_VIOL_PER_TASK = 40
MAX_SAMPLES = 12


class Inconclusive(Exception):
    pass


def out(*a):
    """print that survives a reader closing the pipe early (the exit code must still be the verdict)."""
    try:
        print(*a, flush=True)
    except BrokenPipeError:
        try:
            sys.stdout = open(os.devnull, "w")
        except OSError:
            pass


def h64(obj):
    """Stable 64-bit digest of a JSON-like object (independent of PYTHONHASHSEED)."""
    return int.from_bytes(hashlib.blake2b(repr(obj).encode(), digest_size=8).digest(), "big")


class Partial:
    """What one task observed.  Mergeable."""

    def __init__(self):
        self.evals = 0                      # monitored executions
        self.distinct = set()               # h64 keys of distinct non-trivial cases
        self.distinct_count = 0             # cases distinct by construction (exhaustive sweeps)
        self.samples = []
        self.counters = collections.Counter()
        self.violations = []                # dicts: key, what, case
        self.dropped_violations = 0
        self.extra = {}                     # check specific, merged by the check's `merge_extra`
        self.errors = []                    # harness errors -> inconclusive
        self.lines = set()                  # (file, line) of library lines executed (coverage tap)
        self.max_viol = MAX_VIOL_PER_TASK

    def violate(self, key, what, case):
        if len(self.violations) < self.max_viol:
            self.violations.append({"key": key, "what": what, "case": case})
        else:
            self.dropped_violations += 1

    def sample(self, s):
        if len(self.samples) < MAX_SAMPLES:
            self.samples.append(s)

    def nontrivial(self, key):
        self.distinct.add(h64(key))

    def merge(self, o, merge_extra=None):
        self.evals += o.evals
        self.distinct |= o.distinct
        self.distinct_count += o.distinct_count
        for s in o.samples:
            if len(self.samples) < MAX_SAMPLES:
                self.samples.append(s)
        self.counters.update(o.counters)
        self.violations.extend(o.violations)
        self.dropped_violations += o.dropped_violations
        self.errors.extend(o.errors)
        self.lines |= o.lines
        if merge_extra:
            merge_extra(self.extra, o.extra)
        else:
            for k, v in o.extra.items():
                if k not in self.extra:
                    self.extra[k] = v
                elif isinstance(v, set):
                    self.extra[k] |= v
                elif isinstance(v, collections.Counter):
                    self.extra[k].update(v)
                elif isinstance(v, list):
                    self.extra[k].extend(v)
                elif isinstance(v, dict):
                    self.extra[k].update(v)
                elif isinstance(v, (int, float)):
                    self.extra[k] += v


# ------------------------------------------------------------------------------------------------
# retention monitor: objects the library handed out must not change afterwards unless the caller
# changes them (a library that keeps a reference to a returned object and edits it during a later
# call breaks "the returned circuit prepares the requested state" after the fact)

class Retained:
    def __init__(self, digest, limit=400):
        self.digest = digest
        self.limit = limit
        self.items = []

    def add(self, obj, info):
        if len(self.items) < self.limit:
            try:
                self.items.append((obj, self.digest(obj), info))
            except Exception:       # noqa: BLE001
                pass

    def changed(self):
        """-> list of (info, old digest, new digest) for objects that changed since they were returned."""
        out = []
        for obj, d0, info in self.items:
            try:
                d1 = self.digest(obj)
            except Exception as e:  # noqa: BLE001
                d1 = "digest failed: %s" % type(e).__name__
            if d1 != d0:
                out.append((info, d0, d1))
        return out

    def clear(self):
        del self.items[:]


# ------------------------------------------------------------------------------------------------
# calling the library

def call(fn, *a, **kw):
    """(True, result) or (False, exception).  KeyboardInterrupt / SystemExit propagate."""
    try:
        return True, fn(*a, **kw)
    except Exception as e:          # noqa: BLE001 - any exception type is an observable outcome
        return False, e


def exc_name(e):
    return type(e).__name__


# ------------------------------------------------------------------------------------------------
# coverage tap: which lines of the library were executed (sys.monitoring, each location disabled
# after its first hit, so the cost is negligible)

_COV = {"on": False, "lines": set()}


def coverage_start():
    mon = getattr(sys, "monitoring", None)
    if mon is None or _COV["on"]:
        return
    root = os.path.join(env.SRC, "htstabilizer") + os.sep
    tool = mon.COVERAGE_ID
    try:
        mon.use_tool_id(tool, "hv-coverage")
    except ValueError:
        return

    def on_line(code, line):
        fn = code.co_filename
        if fn.startswith(root):
            _COV["lines"].add((fn[len(root):], line))
        return mon.DISABLE
    mon.register_callback(tool, mon.events.LINE, on_line)
    mon.set_events(tool, mon.events.LINE)
    _COV["on"] = True


def coverage_take():
    out = set(_COV["lines"])
    return out


# ------------------------------------------------------------------------------------------------
# worker side

def _worker_init():
    env.ensure_deps()
    env.use_repo()
    if os.environ.get("HV_COVERAGE", "1") != "0":
        coverage_start()


def _run_task(modname, task):
    mod = importlib.import_module(modname)
    try:
        p = mod.work(task)
    except Exception as e:          # noqa: BLE001
        p = Partial()
        # Where did it come from?  All workloads feed valid inputs outside the explicitly guarded negative
        # cases, so an exception that escapes from *library* code is an observation about the library
        # (crash monitor); an exception raised in harness code is a harness problem (inconclusive).
        tb = traceback.extract_tb(e.__traceback__)
        lib = os.path.join(env.SRC, "htstabilizer") + os.sep
        if tb and tb[-1].filename.startswith(lib):
            fr = tb[-1]
            p.evals += 1
            p.violate("library-raised-unexpectedly %s in %s:%s" % (type(e).__name__, os.path.basename(fr.filename), fr.name),
                      "while the workload of %s was driving valid inputs, library code raised %s: %s (at %s:%d in %s); task %s"
                      % (getattr(mod, "PID", "?"), type(e).__name__, str(e)[:200], os.path.basename(fr.filename), fr.lineno, fr.name, str(task)[:160]),
                      {"kind": "crash", "task": repr(task)[:2000]})
            p.distinct.add(h64(("crash", type(e).__name__, fr.name)))
            p.distinct.add(h64(("crash2", fr.lineno)))
        else:
            p.errors.append("task %r: %s" % (str(task)[:200], traceback.format_exc()[-1500:]))
    p.lines = coverage_take()
    return p


# ------------------------------------------------------------------------------------------------
# known findings

def load_known():
    path = os.path.join(env.VERIF, "KNOWN_FINDINGS.txt")
    open_, fixed = {}, []
    if os.path.exists(path):
        for line in open(path):
            line = line.strip()
            if not line or line.startswith("#"):
                continue
            if line.startswith("open:"):
                body = line[5:].strip()
                # open: property=<id> key=<key...> :: <what fails>
                head, _, what = body.partition("::")
                toks = head.split()
                pid = toks[0].split("=", 1)[1]
                key = head.split("key=", 1)[1].strip()
                open_[(pid, key)] = what.strip() or key
            elif line.startswith("fixed:"):
                fixed.append(line)
    return open_, fixed


# ------------------------------------------------------------------------------------------------
# anchors of a property (for the coverage summary)

def property_record(pid):
    for l in open(os.path.join(env.VERIF, "properties.jsonl")):
        d = json.loads(l)
        if d["id"] == pid:
            return d
    return {}


def anchor_ranges(prop):
    import re
    out = []
    for m in prop.get("anchors", {}).get("mechanism", []):
        for part in m.get("where", "").split(";"):
            part = part.strip()
            mm = re.match(r"src/htstabilizer/([\w_]+\.py):([\d,\-\s]+)$", part)
            if not mm:
                continue
            lines = set()
            for seg in mm.group(2).split(","):
                seg = seg.strip()
                if "-" in seg:
                    a, b = seg.split("-")
                    lines |= set(range(int(a), int(b) + 1))
                elif seg:
                    lines.add(int(seg))
            out.append((m.get("name", ""), mm.group(1), lines))
    return out


# ------------------------------------------------------------------------------------------------
# main entry

def write_evidence(pid, doc):
    # runs against another tree (HV_REPO=<scratch copy>, used by the drills) must not overwrite the evidence about /repo
    sub = "evidence" if os.path.realpath(env.REPO) == os.path.realpath("/repo") else os.path.join("evidence", "_other_tree")
    os.makedirs(os.path.join(env.VERIF, sub), exist_ok=True)
    path = os.path.join(env.VERIF, sub, pid + ".json")
    try:
        import jsonschema
        schema_path = "/root/.vp/EVIDENCE.schema.json"
        local = os.path.join(env.VERIF, "hv", "EVIDENCE.schema.json")
        schema = json.load(open(schema_path if os.path.exists(schema_path) else local))
        jsonschema.validate(doc, schema)
    except ImportError:
        pass
    tmp = path + ".tmp"
    with open(tmp, "w") as f:
        json.dump(doc, f, indent=1, default=str)
        f.write("\n")
    os.replace(tmp, path)
    if doc.get("tier") == "thorough" and sub == "evidence":
        # keep the deepest run next to the per-change one (evidence/<id>.json is rewritten by every run)
        tdir = os.path.join(env.VERIF, "evidence", "thorough")
        os.makedirs(tdir, exist_ok=True)
        with open(os.path.join(tdir, pid + ".json"), "w") as f:
            json.dump(doc, f, indent=1, default=str)
            f.write("\n")
    return path


def write_replay(pid, tier, seed, v):
    d = os.path.join(env.VERIF, "replays", pid)
    os.makedirs(d, exist_ok=True)
    body = {"property": pid, "tier": tier, "seed": seed, "key": v["key"], "what": v["what"],
            "case": v["case"], "repo_head": env.repo_head()}
    digest = hashlib.blake2b(json.dumps(body["case"], sort_keys=True, default=str).encode(),
                             digest_size=6).hexdigest()
    path = os.path.join(d, digest + ".json")
    with open(path, "w") as f:
        json.dump(body, f, indent=1, default=str)
        f.write("\n")
    return path


def execute(mod, tasks, workers=None):
    """Run tasks over worker processes, merge partials."""
    total = Partial()
    merge_extra = getattr(mod, "merge_extra", None)
    workers = workers or env.WORKERS
    budget = float(os.environ.get("HV_WATCHDOG_S", "0") or 0) or None
    t0 = time.time()
    if workers <= 1 or len(tasks) <= 1 or getattr(mod, "SERIAL", False):
        _worker_init()
        for t in tasks:
            total.merge(_run_task(mod.__name__, t), merge_extra)
        return total
    with cf.ProcessPoolExecutor(max_workers=min(workers, len(tasks)), initializer=_worker_init) as ex:
        futs = [ex.submit(_run_task, mod.__name__, t) for t in tasks]
        try:
            for f in cf.as_completed(futs, timeout=budget):
                total.merge(f.result(), merge_extra)
        except cf.TimeoutError:
            for f in futs:
                f.cancel()
            raise Inconclusive("watchdog fired after %.0f s" % (time.time() - t0))
        except cf.process.BrokenProcessPool as e:
            raise Inconclusive("a worker process died: %s" % e)
    return total


def run_check(pid, tier, seed):
    t0 = time.time()
    modname = "hv.checks." + pid.lower()
    try:
        env.ensure_deps()
        from .oracle import selftest
        n_self, fails = selftest.run()
        if fails:
            raise Inconclusive("oracle self-test failed: %r" % (fails[:3],))
        try:
            env.use_repo()
        except Exception as e:      # noqa: BLE001
            raise Inconclusive("package not importable from %s: %s: %s" % (env.SRC, type(e).__name__, e))
        mod = importlib.import_module(modname)
        tasks = mod.plan(tier, seed)
        total = execute(mod, tasks)
        if total.errors and not total.violations:
            raise Inconclusive("harness error: " + total.errors[0])
        if hasattr(mod, "second_round"):
            tasks2 = mod.second_round(total, tier, seed)
            if tasks2:
                total.merge(execute(mod, tasks2), getattr(mod, "merge_extra", None))
                tasks = tasks + tasks2
                if total.errors and not total.violations:
                    raise Inconclusive("harness error: " + total.errors[0])
        if hasattr(mod, "finalize"):
            try:
                mod.finalize(total, tier, seed)
            except Inconclusive as e:
                # a reach floor that is not met does not un-observe a violation that was observed
                if not total.violations:
                    raise
                total.counters["reach floor not met (run already has violations): %s" % str(e)[:120]] += 1
        if total.errors and not total.violations:
            raise Inconclusive(total.errors[0])
    except Inconclusive as e:
        out("INCONCLUSIVE property=%s reason=%s" % (pid, str(e).replace("\n", " | ")[:1500]))
        return 2

    for err in total.errors[:3]:
        out("NOTE harness error alongside violations: %s" % err.replace("\n", " | ")[:300])
    known, _fixed = load_known()
    prop = property_record(pid)
    # classify violations
    seen_known = {}
    fresh = []
    for v in total.violations:
        k = (pid, v["key"])
        if k in known:
            seen_known.setdefault(k, v)
        else:
            fresh.append(v)
    if total.errors and not fresh:
        out("INCONCLUSIVE property=%s reason=harness error: %s" % (pid, total.errors[0].replace("\n", " | ")[:1500]))
        return 2
    for (p_, key), v in sorted(seen_known.items()):
        out("KNOWN-FINDING: property=%s %s" % (pid, known[(p_, key)] if known[(p_, key)] else key))
    replay_paths = []
    dedup = {}
    for v in fresh:
        dedup.setdefault(v["key"], v)
    if os.environ.get("HV_DUMP_VIOLATIONS"):
        with open(os.environ["HV_DUMP_VIOLATIONS"], "w") as f:
            json.dump([{"key": k, "what": v["what"]} for k, v in dedup.items()], f, indent=1)
    for key, v in list(dedup.items())[:20]:
        path = write_replay(pid, tier, seed, v)
        replay_paths.append(path)
        out("VIOLATION property=%s replay=%s" % (pid, path))
        out("  what: %s" % v["what"][:600])
    # coverage of anchored mechanisms
    anchors = []
    for name, fn, lines in anchor_ranges(prop):
        hit = sorted(l for (f, l) in total.lines if f == fn and l in lines)
        anchors.append({"mechanism": name, "file": fn, "range": [min(lines), max(lines)],
                        "lines_executed": len(hit)})
    files_hit = collections.Counter(f for f, l in total.lines)
    rule = getattr(mod, "RULE", "")
    if callable(rule):
        rule = rule(tier)
    distinct = len(total.distinct) + total.distinct_count
    cov = {
        "evaluations": total.evals,
        "distinct_nontrivial": distinct,
        "rule": rule,
        "samples": total.samples[:MAX_SAMPLES],
        "exhaustive": bool(total.extra.get("exhaustive", False)),
        "counters": {str(k): v for k, v in sorted(total.counters.items(), key=lambda kv: str(kv[0]))},
        "known_findings_seen": len(seen_known),
        "violations_new": len(dedup),
        "violations_total_observed": len(total.violations) + total.dropped_violations,
        "oracle_selftest_cases": n_self,
        "tasks": len(tasks),
        "library_lines_executed_per_file": dict(sorted(files_hit.items())),
        "anchored_mechanisms_reached": anchors,
        "repo_head": env.repo_head(),
        "repo_root": env.REPO,
    }
    for k, v in total.extra.items():
        if k.startswith("ev_"):
            cov[k[3:]] = v
    doc = {
        "property_id": pid, "tier": tier, "seed": seed, "level": "exploration",
        "coverage": cov,
        "assumptions": list(getattr(mod, "ASSUMPTIONS", [])),
        "wall_s": round(time.time() - t0, 2),
        "violations": len(dedup),
    }
    if total.evals < 1 or distinct < 2:
        out("INCONCLUSIVE property=%s reason=monitor observed too little (evaluations=%d distinct=%d)"
              % (pid, total.evals, distinct))
        return 2
    write_evidence(pid, doc)
    out("%s %s seed=%d: evaluations=%d distinct_nontrivial=%d known=%d new_violations=%d wall=%.1fs"
          % (pid, tier, seed, total.evals, distinct, len(seen_known), len(dedup), time.time() - t0))
    return 1 if dedup else 0


def run_replay(pid, path):
    env.ensure_deps()
    try:
        env.use_repo()
    except Exception as e:          # noqa: BLE001
        out("INCONCLUSIVE property=%s reason=package not importable: %s" % (pid, e))
        return 2
    mod = importlib.import_module("hv.checks." + pid.lower())
    body = json.load(open(path))
    _worker_init()
    vs = mod.replay(body["case"])
    if vs:
        out("VIOLATION property=%s replay=%s" % (pid, path))
        for v in vs[:5]:
            out("  what: %s" % v["what"][:600])
        return 1
    out("REPLAY-OK property=%s case no longer violates" % pid)
    return 0


def main(argv=None):
    argv = list(sys.argv[1:] if argv is None else argv)
    if not argv:
        out("usage: check <Cxx> <quick|thorough> | check <Cxx> --replay <path>")
        return 2
    pid = argv[0].upper()
    if "--replay" in argv:
        return run_replay(pid, argv[argv.index("--replay") + 1])
    tier = argv[1] if len(argv) > 1 else os.environ.get("VERIF_TIER", "quick")
    if tier not in ("quick", "thorough"):
        tier = "quick"
    return run_check(pid, tier, env.SEED)


if __name__ == "__main__":
    # delegate to the module object that the checks import (see hv/run.py)
    from hv.core import main as _main
    sys.exit(_main())
