"""Shared case generation for the checks that drive the preparation / readout pipeline
(C01-C04, C12, ...).  A *task* is a small picklable description of a stratum chunk; `iter_cases`
expands it inside the worker into concrete cases:

    {"n", "gens" (signed, list of (x,z,s)), "circuit" (gate list or None), "code", "graph_state",
     "conn", "fmt", "stratum", "label" (oracle LC-orbit label)}
"""
import itertools
import random

from ..oracle import conn as oconn, groups, lcorbit
from ..oracle.pauli import to_str
from . import stabilizers as ws


def chunks(lst, k):
    k = max(1, k)
    size = (len(lst) + k - 1) // k
    return [lst[i:i + size] for i in range(0, len(lst), size)] if lst else []


def enum_tasks(n, nchunks, signs, nconf, seed, presentation="random", frac=1.0):
    """All groups of n qubits.  signs: "all" or an int (number of random sign vectors);
    nconf: "all" or an int (number of random configurations per case)."""
    seeds = groups.group_tasks(n)
    random.Random(seed).shuffle(seeds)
    return [("enum", n, ch, signs, nconf, seed * 1000 + i, presentation if frac >= 1.0 else (presentation, frac))
            for i, ch in enumerate(chunks(seeds, nchunks))]


def member_tasks(n, reps, nchunks, seed, confs="all", plain_graph_every=0):
    labels = sorted(set(lcorbit.orbit_table(n)))
    random.Random(seed).shuffle(labels)
    return [("members", n, ch, reps, confs, seed * 1000 + 500 + i, plain_graph_every)
            for i, ch in enumerate(chunks(labels, nchunks))]


def neighbour_tasks(n, count, nchunks, seed, per_anchor=60):
    """Anchors A (class-stratified members, mixed and unmixed generating sets) each followed immediately, in
    the same process and on the same connectivity, by requests for valid stabilizers whose tableau differs
    from A's in one or two bits."""
    labels = sorted(set(lcorbit.orbit_table(n)))
    rnd = random.Random(seed * 7 + n)
    picks = [labels[rnd.randrange(len(labels))] for _ in range(count)]
    # one anchor per task: anchors in weakly entangled classes make the library's layer search slow (large kernels)
    return [("neigh", n, [lab], per_anchor, seed * 1000 + 900 + i) for i, lab in enumerate(picks)]


def tablerep_tasks(n, nchunks, seed, frac=1.0):
    """The library's own representatives: for every (configuration, class id) the graph state of the graph that the
    lookup table stores for that class (read through the public lookup API), with two different sign patterns requested
    one after the other and the first one again."""
    rnd = random.Random(seed * 13 + n)
    pairs = [(c, i) for c in oconn.configs_for(n) for i in range(oconn.NUM_CLASSES[n]) if rnd.random() < frac]
    rnd.shuffle(pairs)
    return [("tablereps", n, ch, seed * 1000 + 700 + k) for k, ch in enumerate(chunks(pairs, nchunks))]


FMT_CYCLE = ("str+", "str", "mat", "mat3", "circuit")
HOSTILE = ("heavy", "canon", "reversed", "random", "random", "random")


def iter_cases(task):
    kind = task[0]
    if kind == "enum":
        _, n, seeds, signs, nconf, seed, presentation = task
        frac = 1.0
        if isinstance(presentation, tuple):
            presentation, frac = presentation
        rnd = random.Random(seed)
        confs = oconn.configs_for(n)
        k = 0
        for sd in seeds:
            for rows in groups.groups_from_task(sd, n):
                if frac < 1.0 and rnd.random() >= frac:
                    continue
                base = [groups.split(v, n) for v in rows]
                label = lcorbit.orbit_label(base, n)
                if signs == "all":
                    signsets = itertools.product((0, 1), repeat=n)
                else:
                    signsets = [tuple(rnd.getrandbits(1) for _ in range(n)) for _ in range(signs)]
                for sg in signsets:
                    gens = [(x, z, s) for (x, z), s in zip(base, sg)]
                    if presentation == "random":
                        gens = groups.random_presentation(gens, n, rnd)
                    cs = confs if nconf == "all" else rnd.sample(confs, min(nconf, len(confs)))
                    for c in cs:
                        k += 1
                        fmt = ("str+", "str", "mat", "mat3")[k % 4]
                        yield {"n": n, "gens": gens, "circuit": None, "code": None, "graph_state": False,
                               "conn": c, "fmt": fmt, "stratum": "enum%d" % n, "label": label}
    elif kind == "members":
        _, n, labels, reps, confs, seed, plain_every = task
        rnd = random.Random(seed)
        orb = lcorbit.orbit_members(n)
        allconfs = oconn.configs_for(n)
        k = 0
        for label in labels:
            for r in range(reps):
                cs = list(allconfs) if confs == "all" else rnd.sample(allconfs, min(confs, len(allconfs)))
                # one member is requested on all its configurations consecutively (sparse -> dense or the reverse),
                # in a different input format each time; every second round draws a fresh member per configuration
                cs.sort(key=lambda c: len(oconn.EDGES[(n, c)]), reverse=bool(r % 2))
                shared = None
                for c in cs:
                    k += 1
                    plain = bool(plain_every) and (k % plain_every == 0)
                    if plain or shared is None or (r % 2 == 1 and k % 2 == 0):
                        m = ws.member(label, n, rnd, orb[label], plain_graph=plain, style=ws.STYLES[(k + r) % len(ws.STYLES)])
                        if not plain:
                            m["gens"] = ws.hostile_presentation(m["gens"], n, rnd, HOSTILE[k % len(HOSTILE)])
                            shared = m
                    else:
                        m = dict(shared)
                    m = dict(m)
                    m.update(conn=c, fmt=("graph" if m.get("graph_state") else FMT_CYCLE[k % len(FMT_CYCLE)]),
                             stratum="member%d" % n, label=label)
                    yield m
    elif kind == "tablereps":
        _, n, pairs, seed = task
        rnd = random.Random(seed)
        from htstabilizer import circuit_lookup
        for k, (c, i) in enumerate(pairs):
            try:
                gid = int(circuit_lookup.stabilizer_circuit_lookup(n, c, i).graph_id)
            except Exception:           # noqa: BLE001
                continue
            if not 0 <= gid < (1 << (n * (n - 1) // 2)):
                continue
            label = lcorbit.orbit_table(n)[gid]
            base = ws.graph_circuit_gates(gid, n)
            variants = []
            for _ in range(2):
                flips = [("z", (q,)) for q in range(n) if rnd.getrandbits(1)]
                circ = base + flips
                from ..oracle.pauli import state_of
                gens = state_of(circ, n)
                if k % 2:
                    gens = groups.random_presentation(gens, n, rnd)
                variants.append({"n": n, "gens": gens, "circuit": circ, "code": gid, "graph_state": False, "conn": c,
                                 "fmt": ("str+", "mat3", "circuit", "str")[k % 4], "stratum": "table-representative%d" % n, "label": label})
            yield dict(variants[0])
            yield dict(variants[1])
            yield dict(variants[0])
    elif kind == "neigh":
        _, n, labels, per_anchor, seed = task
        rnd = random.Random(seed)
        orb = lcorbit.orbit_members(n)
        allconfs = oconn.configs_for(n)
        for k, label in enumerate(labels):
            a = ws.member(label, n, rnd, orb[label], style=ws.STYLES[k % len(ws.STYLES)], mix=bool(k % 3 == 0))
            c = allconfs[rnd.randrange(len(allconfs))]
            fmt = ("str+", "mat3")[k % 2]
            nb = ws.tableau_neighbours(a["gens"], n)
            rnd.shuffle(nb)
            # singles first (they are few), then doubles up to the budget
            singles = [g for g in nb if sum(1 for x, y in zip(g, a["gens"]) if x != y) == 1]
            doubles = [g for g in nb if g not in singles]
            reps = []
            for j in (0, n - 1):
                r = ws.generator_replacements(a["gens"], n, j)
                rnd.shuffle(r)
                reps += r[:max(4, per_anchor // 3)]
            chosen = (singles + doubles)[:per_anchor] + reps
            # ... and the states that differ from A by one single-qubit Clifford on one qubit (same class, all but one
            # qubit identical)
            from ..oracle.pauli import conj_circuit
            locs = []
            for q in range(n):
                for lc in lcorbit.LC1[1:]:
                    g1 = [(nm, (q,)) for nm in lc]
                    locs.append([conj_circuit(x, g1) for x in a["gens"]])
            rnd.shuffle(locs)
            chosen = chosen + locs[:max(6, per_anchor // 3)]
            rnd.shuffle(chosen)
            from ..oracle.pauli import group_elements
            els = group_elements(a["gens"])
            entangled = sum(1 for q in range(n) if not any((e[0] | e[1]) == (1 << q) for e in els))
            if n >= 5 and entangled <= 2:
                chosen = chosen[:12]            # the layer search needs ~1 s per call for (nearly) product states
            anchor = dict(a, conn=c, fmt=fmt, stratum="neighbour-anchor%d" % n, label=label)
            yield dict(anchor)
            yield dict(anchor)                      # requested twice: caches that only keep what was asked for repeatedly
            for g in chosen:
                lab = lcorbit.orbit_label(g, n)
                b = {"n": n, "gens": g, "circuit": None, "code": None, "graph_state": False, "conn": c, "fmt": fmt,
                     "stratum": "neighbour%d" % n, "label": lab}
                yield dict(b)
                r = rnd.random()
                if r < 0.25:
                    yield dict(anchor)              # the confusion is possible in both directions
                elif r < 0.4:
                    yield dict(b)
    else:
        raise ValueError(kind)


def case_key(case):
    n = case["n"]
    c = groups.canon(case["gens"], n)
    return (n, case["conn"], case["fmt"], c)


def case_json(case):
    j = ws.case_json(case)
    j.update(conn=case["conn"], fmt=case["fmt"], stratum=case.get("stratum"), label=case.get("label"))
    return j


def case_from_json(j):
    c = ws.case_from_json(j)
    c.update(conn=j["conn"], fmt=j["fmt"], stratum=j.get("stratum"), label=j.get("label"))
    return c


def sample_of(case):
    return {"generators": [to_str(g, case["n"]) for g in case["gens"]], "connectivity": case["conn"],
            "format": case["fmt"], "stratum": case.get("stratum")}
