"""Workload generators for stabilizer inputs (G1-G3) and helpers to hand them to the library in
every supported input format."""
import random

import numpy as np

from ..oracle import groups, lcorbit
from ..oracle.pauli import conj_circuit, state_of, to_str, hmul

FORMATS = ("str+", "str", "mat", "mat3", "circuit", "graph")


def graph_circuit_gates(code, n):
    rows = lcorbit.adj_rows(code, n)
    g = [("h", (q,)) for q in range(n)]
    g += [("cz", (a, b)) for a in range(n) for b in range(a + 1, n) if (rows[a] >> b) & 1]
    return g


STYLES = ("random", "random", "random", "uniform", "pauli-frame", "all-minus", "random", "one-odd")


def member(label, n, rnd, members=None, plain_graph=False, style="random", mix=True):
    """A random signed stabilizer of the LC class `label`.

    Returns dict: gens (random generating set of the signed group), circuit (gate list preparing
    exactly that signed state, synthesised by the oracle), code (graph the state was derived from),
    local (the single-qubit gates applied), graph_state (True when it is the +graph state itself).
    style: "random" (independent local Clifford out of 24 per qubit), "uniform" (the same local Clifford on
    every qubit), "one-odd" (uniform except one qubit), "pauli-frame" (only Paulis: a graph state with
    signs), "all-minus" (every canonical graph generator negative before the local layer).
    """
    members = members or lcorbit.orbit_members(n)[label]
    code = rnd.choice(members)
    circ = graph_circuit_gates(code, n)
    if plain_graph:
        gens = lcorbit.graph_gens(code, n)
        return {"gens": gens, "circuit": circ, "code": code, "local": [], "graph_state": True, "n": n}
    if style == "all-minus":
        flips = [("z", (q,)) for q in range(n)]
    else:
        flips = [("z", (q,)) for q in range(n) if rnd.getrandbits(1)]
    if style in ("uniform", "one-odd"):
        c = rnd.randrange(24)
        picks = [c] * n
        if style == "one-odd":
            picks[rnd.randrange(n)] = rnd.randrange(24)
    elif style == "pauli-frame":
        picks = [rnd.randrange(4) for _ in range(n)]          # LC24[0..3] = identity class followed by I, X, Y, Z
    else:
        picks = [rnd.randrange(24) for _ in range(n)]
    local = [(nm, (q,)) for q in range(n) for nm in lcorbit.LC24[picks[q]]]
    circ = circ + flips + local
    if rnd.random() < 0.6:
        # same state, generic circuit: a random Clifford detour U ... U^-1 (so that two-qubit gates also act on
        # tableaus that are not in graph form when the library reads the circuit)
        U = random_gates(n, rnd.choice([3, 6, 10]), rnd, "uniform")
        k = rnd.randrange(len(circ) + 1)
        circ = circ[:k] + U + inverse_with_other_gates(U) + circ[k:]
    gens = state_of(circ, n)
    if mix:
        gens = groups.random_presentation(gens, n, rnd)
    return {"gens": gens, "circuit": circ, "code": code, "local": local, "graph_state": False, "n": n, "style": style}


def tableau_neighbours(gens, n, max_bits=2):
    """All valid stabilizers whose generator tableau differs from `gens` in one or two bits (an x or z bit of
    one qubit of one generator; signs unchanged).  These are the requests on which a result computed for
    `gens` is most easily confused with the right one (lossy memoisation keys, truncated fingerprints)."""
    from ..oracle.pauli import commute
    from ..oracle.groups import rank
    m = len(gens)
    bits = [(j, part, q) for j in range(m) for part in (0, 1) for q in range(n)]

    def flip(g, part, q):
        return (g[0] ^ (1 << q), g[1], g[2]) if part == 0 else (g[0], g[1] ^ (1 << q), g[2])
    out = []
    for a in range(len(bits)):
        ja, pa, qa = bits[a]
        ga = flip(gens[ja], pa, qa)
        ok_a = all(commute(ga, gens[k]) for k in range(m) if k != ja)
        if ok_a:
            cand = [ga if k == ja else gens[k] for k in range(m)]
            if (ga[0] or ga[1]) and rank(cand, n) == m:
                out.append(cand)
        if max_bits < 2:
            continue
        for b in range(a + 1, len(bits)):
            jb, pb, qb = bits[b]
            cand = list(gens)
            cand[ja] = ga
            cand[jb] = flip(cand[jb], pb, qb)
            changed = {ja, jb}
            good = all(commute(cand[i], cand[k]) for i in changed for k in range(m) if k != i)
            if good and all(c[0] or c[1] for c in cand) and rank(cand, n) == m:
                out.append(cand)
    return out


def generator_replacements(gens, n, j):
    """All valid stabilizers that share every generator with `gens` except generator j (same sign)."""
    from ..oracle.pauli import commute
    from ..oracle.groups import rank
    others = [g for k, g in enumerate(gens) if k != j]
    out = []
    for x in range(1 << n):
        for z in range(1 << n):
            h = (x, z, gens[j][2])
            if (x or z) and (x, z) != (gens[j][0], gens[j][1]) and all(commute(h, g) for g in others):
                cand = [h if k == j else gens[k] for k in range(len(gens))]
                if rank(cand, n) == len(gens):
                    out.append(cand)
    return out


def inverse_with_other_gates(gates):
    """U^-1 written with different gates than U (cz undone by h cx h, cx by h cz h, swap by three cx), so that a
    defect in the handling of one gate type is not cancelled by the mirror image of the same gate."""
    out = []
    for nm, qs in reversed(gates):
        if nm == "s":
            out.append(("sdg", qs))
        elif nm == "sdg":
            out.append(("s", qs))
        elif nm == "cz":
            a, b = qs
            out += [("h", (b,)), ("cx", (a, b)), ("h", (b,))]
        elif nm == "cx":
            a, b = qs
            out += [("h", (b,)), ("cz", (a, b)), ("h", (b,))]
        elif nm == "swap":
            a, b = qs
            out += [("cx", (a, b)), ("cx", (b, a)), ("cx", (a, b))]
        elif nm in ("barrier", "measure"):
            continue
        else:
            out.append((nm, qs))
    return out


def random_registers(n, rnd):
    """Split n qubits into 2 or 3 registers (None when n < 2)."""
    if n < 2:
        return None
    k = rnd.randrange(1, n)
    if n - k >= 2 and rnd.random() < 0.4:
        j = rnd.randrange(1, n - k)
        return [k, j, n - k - j]
    return [k, n - k]


def hostile_presentation(gens, n, rnd, kind):
    """Special generating sets of the same signed group."""
    if kind == "heavy":          # greedily maximise generator weights
        cur = list(gens)
        for _ in range(3 * n):
            i, j = rnd.sample(range(n), 2)
            cand = hmul(cur[i], cur[j])
            if bin(cand[0] | cand[1]).count("1") >= bin(cur[i][0] | cur[i][1]).count("1"):
                cur[i] = cand
        return cur
    if kind == "canon":
        return list(groups.canon(gens, n))
    if kind == "reversed":
        return list(reversed(gens))
    return gens


def matrices(gens, n, dtype=np.int8):
    """R[q, j] = x bit of qubit q in operator j (columns are operators), same for S; phases[j]."""
    m = len(gens)
    R = np.zeros((n, m), dtype=dtype)
    S = np.zeros((n, m), dtype=dtype)
    ph = np.zeros(m, dtype=dtype)
    for j, (x, z, s) in enumerate(gens):
        for q in range(n):
            R[q, j] = (x >> q) & 1
            S[q, j] = (z >> q) & 1
        ph[j] = s
    return R, S, ph


def strings(gens, n, plus=True):
    out = []
    for g in gens:
        s = to_str(g, n)
        if not plus and s[0] == "+":
            s = s[1:]
        out.append(s)
    return out


def qiskit_circuit(gates, n, registers=None):
    """registers: optional list of register sizes summing to n (a circuit built on several quantum registers)."""
    from qiskit import QuantumCircuit, QuantumRegister
    if registers:
        qc = QuantumCircuit(*[QuantumRegister(k, "r%d" % i) for i, k in enumerate(registers)])
    else:
        qc = QuantumCircuit(n)
    for g in gates:
        name, qs = g[0], g[1]
        if name in ("id", "i"):
            qc.id(qs[0])
        elif name == "ry":
            qc.ry(g[2][0], qs[0])
        else:
            getattr(qc, name)(*qs)
    return qc


def make_stabilizer(case, fmt, rnd=None):
    """Library Stabilizer object for a member/case dict in the requested input format.
    Falls back to "str+" when the format cannot express the case (returns (stabilizer, fmt_used))."""
    from htstabilizer.stabilizer import Stabilizer
    from htstabilizer.graph import Graph
    n = case["n"]
    gens = case["gens"]
    if fmt == "graph" and not case.get("graph_state"):
        fmt = "str+"
    if fmt == "circuit" and not case.get("circuit"):
        fmt = "str"
    if fmt == "mat" and any(g[2] for g in gens):
        fmt = "mat3"
    if fmt == "str+":
        return Stabilizer(strings(gens, n, True)), fmt
    if fmt == "str":
        return Stabilizer(strings(gens, n, False)), fmt
    if fmt in ("mat", "mat3"):
        dt = (rnd or random).choice([np.int8, np.int64, np.uint8, np.bool_, np.int32])
        R, S, ph = matrices(gens, n, dt)
        return (Stabilizer((R, S)) if fmt == "mat" else Stabilizer((R, S, ph))), fmt
    if fmt == "circuit":
        return Stabilizer(qiskit_circuit(case["circuit"], n)), fmt
    if fmt == "graph":
        rows = lcorbit.adj_rows(case["code"], n)
        A = np.array([[(rows[a] >> b) & 1 for b in range(n)] for a in range(n)], dtype=np.int8)
        return Stabilizer(Graph(A)), fmt
    raise ValueError(fmt)


def random_gates(n, length, rnd, mix="uniform"):
    """Random circuit over the documented gate set {id,x,y,z,h,s,sdg,cx,cz,swap} (G4)."""
    one = ["id", "x", "y", "z", "h", "s", "sdg"]
    two = ["cx", "cz", "swap"]
    out = []
    sub = list(range(n))
    if mix == "subset" and n > 2:
        sub = rnd.sample(range(n), rnd.randrange(2, n))
    while len(out) < length:
        if mix == "single":
            nm = rnd.choice(one)
        elif mix == "two":
            nm = rnd.choice(two)
        elif mix == "swapchain":
            nm = rnd.choice(["swap", "swap", "h", "cx"])
        elif mix == "yheavy":
            nm = rnd.choice(["y", "y", "id", "h", "s", "cz", "cx"])
        elif mix == "idpad":
            nm = rnd.choice(["id", "id", "id"] + one + two)
        else:
            nm = rnd.choice(one + two)
        if nm in two:
            a, b = rnd.sample(sub, 2)
            out.append((nm, (a, b)))
            if mix == "redundant" and rnd.random() < 0.5:
                out.append((nm, (a, b)))
        else:
            q = rnd.choice(sub)
            out.append((nm, (q,)))
            if mix == "redundant" and nm in ("h", "x", "y", "z") and rnd.random() < 0.5:
                out.append((nm, (q,)))
    return out[:length] if mix != "redundant" else out


def cheap_uncoupled(n, rnd, kind=None):
    """Short input circuits whose few two-qubit gates sit on arbitrary (typically uncoupled) pairs:
    GHZ fan-outs, long-range Bell pairs, 1-3 random two-qubit gates dressed with local gates.  They are
    cheaper than or as cheap as the tailored circuit, which is where an 'already optimal' shortcut bites."""
    kind = kind or rnd.choice(["fanout", "bell", "few", "swapbell"])
    g = []
    if kind == "fanout":
        c = rnd.randrange(n)
        g.append(("h", (c,)))
        for t in rnd.sample([q for q in range(n) if q != c], rnd.randrange(1, n)):
            g.append(("cx", (c, t)))
    elif kind == "bell":
        a, b = rnd.sample(range(n), 2)
        g += [("h", (a,)), ("cx", (a, b))]
        if n >= 4 and rnd.random() < 0.5:
            c, d = rnd.sample([q for q in range(n) if q not in (a, b)], 2)
            g += [("h", (c,)), ("cz", (c, d)), ("h", (d,))]
    elif kind == "swapbell":
        a, b, c = rnd.sample(range(n), 3) if n >= 3 else (0, 1, 0)
        g += [("h", (a,)), ("cx", (a, b))]
        if n >= 3:
            g.append(("swap", (b, c)))
    else:
        for _ in range(rnd.randrange(1, 4)):
            a, b = rnd.sample(range(n), 2)
            g += [(rnd.choice(["h", "s", "sdg", "x"]), (a,)), (rnd.choice(["cx", "cz"]), (a, b)), (rnd.choice(["h", "s", "z", "y"]), (b,))]
    for q in range(n):
        if rnd.random() < 0.3:
            g.append((rnd.choice(["x", "z", "s", "h", "y"]), (q,)))
    return g


def case_json(case):
    """JSON-able replay form of a member/case dict."""
    return {"n": case["n"], "gens": [to_str(g, case["n"]) for g in case["gens"]],
            "circuit": [[nm, list(qs)] for nm, qs in case.get("circuit") or []] or None,
            "code": case.get("code"), "graph_state": bool(case.get("graph_state"))}


def case_from_json(j):
    from ..oracle.pauli import parse_pauli
    return {"n": j["n"], "gens": [parse_pauli(s) for s in j["gens"]],
            "circuit": [(nm, tuple(qs)) for nm, qs in j["circuit"]] if j.get("circuit") else None,
            "code": j.get("code"), "graph_state": bool(j.get("graph_state"))}
