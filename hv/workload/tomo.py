"""Exact outcome statistics for measurement circuits, handed to the real fitters through a duck-typed
result object (C10-C12).

Two kinds of statistics:
 * dense: p(b) = <b| U rho U^dagger |b> for an arbitrary density matrix rho (dense oracle);
 * operator basis: for the 4^N states rho_k = (I + P_k) / 2^N the scaled outcome counts
   2^N p(b) = 1 + <b| U P_k U^dagger |b> are integers in {0, 1, 2} computed by the tableau oracle alone;
   they are handed to the fitter as one integer *vector* per outcome, so one fitter call evaluates
   all 4^N basis states through the real parity / sign code.
"""
import numpy as np

from ..oracle import dense
from ..oracle.pauli import conj_circuit, pc, measure_map, inverse_gates, IGNORED


class FakeResult:
    """Duck-typed qiskit Result: get_counts() returns a dict (one circuit) or a list of dicts."""

    def __init__(self, counts):
        self._c = counts

    def get_counts(self, *a, **k):
        return self._c


def gates_with_params(qc):
    out = []
    for inst in qc.data:
        nm = inst.operation.name
        qs = tuple(qc.find_bit(q).index for q in inst.qubits)
        params = tuple(float(x) for x in inst.operation.params) if nm in ("ry",) else ()
        out.append((nm, qs, params) if params else (nm, qs))
    return out


def key_of(b, meas, nc):
    """Little-endian count key of the register outcome b: clbit c shows qubit meas[c]; clbit 0 is the
    rightmost character."""
    return "".join(str((b >> meas[c]) & 1) for c in reversed(range(nc)))


def dense_counts(qc, rho0, N, shots=None):
    """Exact outcome distribution of circuit qc started in rho0 (N-qubit density matrix)."""
    gates = [g for g in gates_with_params(qc) if g[0] not in IGNORED]
    U = dense.unitary(gates, N)
    pvec = np.real(np.diag(U @ rho0 @ U.conj().T))
    meas = measure_map(qc)
    nc = qc.num_clbits
    counts = {}
    for b in range(2 ** N):
        k = key_of(b, meas, nc)
        counts[k] = counts.get(k, 0.0) + float(pvec[b])
    if shots:
        counts = {k: v * shots for k, v in counts.items()}
    return counts


def vector_counts(qc, vecs, N, shots=None):
    """Exact outcome distribution for rho = sum_i |v_i><v_i| (vecs: list of unnormalised state vectors);
    one state-vector evolution per vector instead of a full unitary."""
    gates = [g for g in gates_with_params(qc) if g[0] not in IGNORED]
    pvec = np.zeros(2 ** N)
    for v in vecs:
        e = np.array(v, dtype=complex)
        for g in gates:
            e = dense.apply_gate(e, g[0], g[1], N, g[2] if len(g) > 2 else ())
        pvec += np.abs(e) ** 2
    meas = measure_map(qc)
    nc = qc.num_clbits
    counts = {}
    for b in range(2 ** N):
        k = key_of(b, meas, nc)
        counts[k] = counts.get(k, 0.0) + float(pvec[b])
    if shots:
        counts = {k: v * shots for k, v in counts.items()}
    return counts


def rand_vectors(N, rank, rng):
    """rank unnormalised vectors whose projectors sum to a trace-one density matrix."""
    d = 2 ** N
    A = rng.normal(size=(rank, d)) + 1j * rng.normal(size=(rank, d))
    A /= np.sqrt(np.sum(np.abs(A) ** 2))
    return [A[i] for i in range(rank)]


def rho_of(vecs):
    return sum(np.outer(v, v.conj()) for v in vecs)


def basis_index(x, z, N):
    return x | (z << N)


def basis_counts(qc, N, paulis=None, dtype=np.int16):
    """Vector-valued exact integer counts (scaled by 2^N) for the basis states rho_k = (I+P_k)/2^N.
    paulis: list of (x, z) defining the columns (default: all 4^N, column index = x | z << N).
    Unitary part of qc must be Clifford over the documented gate set."""
    gates = [(nm, qs) for nm, qs in ((g[0], g[1]) for g in gates_with_params(qc)) if nm not in IGNORED]
    if paulis is None:
        col_of = None
        K = 4 ** N
    else:
        col_of = {p: i for i, p in enumerate(paulis)}
        K = len(paulis)
    tab = np.ones((2 ** N, K), dtype=dtype)
    bs = np.arange(2 ** N)
    if col_of is None:
        tab[:, 0] += 1
    elif (0, 0) in col_of:
        tab[:, col_of[(0, 0)]] += 1
    # Only Paulis that the circuit maps to +-Z-type operators contribute.  They are the images of the
    # 2^N - 1 Z-type operators under the inverse circuit: U^dagger Z_b U = (-1)^s P  <=>  U P U^dagger = (-1)^s Z_b.
    inv = inverse_gates(gates)
    for Zb in range(1, 2 ** N):
        x, z, s = conj_circuit((0, Zb, 0), inv)
        col = (x | (z << N)) if col_of is None else col_of.get((x, z))
        if col is None:
            continue
        par = np.array([pc(int(b) & Zb) & 1 for b in bs]) ^ s
        tab[:, col] += (1 - 2 * par).astype(dtype)
    meas = measure_map(qc)
    nc = qc.num_clbits
    counts = {}
    for b in range(2 ** N):
        k = key_of(b, meas, nc)
        if k in counts:
            counts[k] = counts[k] + tab[b]
        else:
            counts[k] = tab[b].copy()
    return counts


def rand_state(N, rng, kind):
    """Density matrix of the requested kind."""
    d = 2 ** N
    if kind == "pure":
        return dense.rand_rho(N, 1, rng)
    if kind == "rank2":
        return dense.rand_rho(N, 2, rng)
    if kind == "full":
        return dense.rand_rho(N, d, rng)
    if kind == "mixed":
        return np.eye(d, dtype=complex) / d
    if kind == "basis":
        r = np.zeros((d, d), dtype=complex)
        k = int(rng.integers(d))
        r[k, k] = 1
        return r
    if kind == "product":
        r = np.array([[1.0 + 0j]])
        for q in range(N):
            v = rng.normal(size=2) + 1j * rng.normal(size=2)
            v /= np.linalg.norm(v)
            r = np.kron(np.outer(v, v.conj()), r)      # qubit q = more significant than earlier ones
        return r
    if kind == "stabilizer":
        import random
        rnd = random.Random(int(rng.integers(1 << 30)))
        g = []
        for _ in range(6 * N):
            nm = rnd.choice(["h", "s", "cx", "cz", "x", "z"])
            g.append((nm, tuple(rnd.sample(range(N), 2)) if nm in ("cx", "cz") else (rnd.randrange(N),)))
        psi = dense.statevector(g, N)
        return np.outer(psi, psi.conj())
    raise ValueError(kind)


STATE_KINDS = ("pure", "rank2", "full", "stabilizer", "product", "basis", "mixed")


def pauli_key(P):
    """(x, z, phase) of a qiskit Pauli dictionary key via its public arrays."""
    x = sum(int(b) << i for i, b in enumerate(P.x))
    z = sum(int(b) << i for i, b in enumerate(P.z))
    return x, z, int(P.phase)


def rand_prep_gates(N, L, rnd, clifford_only=False):
    """Random preparation circuit over {h, s, t, x, cx, cz, ry(theta)} as a gate list with params."""
    out = []
    for _ in range(L):
        nm = rnd.choice(["h", "s", "x", "cx", "cz"] if clifford_only else ["h", "s", "t", "x", "cx", "cz", "ry", "ry"])
        if nm in ("cx", "cz"):
            if N < 2:
                continue
            out.append((nm, tuple(rnd.sample(range(N), 2))))
        elif nm == "ry":
            out.append((nm, (rnd.randrange(N),), (rnd.uniform(0, 6.283),)))
        else:
            out.append((nm, (rnd.randrange(N),)))
    return out


def qiskit_prep(gates, N):
    from qiskit import QuantumCircuit
    qc = QuantumCircuit(N)
    for g in gates:
        if g[0] == "ry":
            qc.ry(g[2][0], g[1][0])
        else:
            getattr(qc, g[0])(*g[1])
    return qc
