"""Session process for C13 (run as `python -m hv.checks.c13_session session|reference ...`).

session  <seed> <events> : one fresh interpreter = one API session.  Before the first library call it
          forks a *pristine zygote* (package imported, never called, caches cold); every request to the
          zygote is answered by a grandchild forked from it, so the zygote never accumulates history.
          The session then interleaves API calls, adversarial mutation of everything returned earlier
          and re-requests; every call is logged (argument digests before/after, result digest, whether
          table files were opened = cold cache) and compared with the pristine answer.
reference: zygote server on stdin/stdout (used with a different PYTHONHASHSEED for the cross-process check).
"""
import json
import os
import random
import sys


def _setup():
    from .. import env
    env.ensure_deps()
    env.use_repo()
    # import (never call) everything, so that the pristine zygote's grandchildren need no imports
    import htstabilizer.stabilizer_circuits, htstabilizer.mub_circuits, htstabilizer.tomography        # noqa: F401,E401
    import htstabilizer.lc_classes, htstabilizer.circuit_lookup, htstabilizer.connectivity_support     # noqa: F401,E401
    return env


# ------------------------------------------------------------------------------------------------
# canonical digests

def dig(o, depth=0):
    import numpy as np
    from qiskit import QuantumCircuit
    if depth > 8:
        return "<deep>"
    if o is None or isinstance(o, (bool, int, str)):
        return o
    if isinstance(o, float):
        return repr(o)
    if isinstance(o, (np.integer,)):
        return int(o)
    if isinstance(o, (np.floating,)):
        return repr(float(o))
    if isinstance(o, np.ndarray):
        return {"nd": o.astype(int).tolist() if o.dtype.kind in "iub" else [repr(x) for x in o.ravel().tolist()], "shape": list(o.shape)}
    if isinstance(o, QuantumCircuit):
        md = o.metadata if isinstance(o.metadata, dict) else {}
        return {"qc": [[i.operation.name, [o.find_bit(q).index for q in i.qubits], [o.find_bit(c).index for c in i.clbits],
                        [repr(float(x)) for x in i.operation.params]] for i in o.data],
                "nq": o.num_qubits, "nc": o.num_clbits, "regs": [[r.name, r.size] for r in list(o.qregs) + list(o.cregs)], "md": {str(k): dig(v, depth + 1) for k, v in sorted(md.items(), key=lambda kv: str(kv[0]))}}
    if isinstance(o, (list, tuple)):
        return [dig(x, depth + 1) for x in o]
    if isinstance(o, dict):
        return {"dict": [[str(k), dig(v, depth + 1)] for k, v in sorted(o.items(), key=lambda kv: str(kv[0]))]}
    name = type(o).__name__
    if name == "Graph":
        return {"graph": dig(o.adjacency_matrix, depth + 1), "nv": int(o.num_vertices)}
    if name == "Stabilizer":
        return {"stab": [dig(o.R, depth + 1), dig(o.S, depth + 1), dig(o.phases, depth + 1)], "n": int(o.num_qubits)}
    if name == "ReadoutInfo":
        return {"readout": dig(o.circuit, depth + 1), "qubits": dig(o.qubits, depth + 1), "total": int(o.total_num_qubits)}
    if name == "MUBInfo":
        return {"mubinfo": [dig(o.mubs, depth + 1), dig(o.circuits, depth + 1), o.total_cost, o.max_cost, o.max_depth, o.num_qubits]}
    if name == "StabilizerCircuitInfo":
        return {"sci": [o.num_qubits, o.graph_id, o.cost, o.depth, o.circuit_string]}
    if name.startswith("LCClass"):
        return {"lcclass": name, "id": int(o.id())}
    if name == "Pauli":
        return {"pauli": o.to_label()}
    return {"obj": name}


# ------------------------------------------------------------------------------------------------
# descriptors -> arguments -> calls

STABS = {
    2: [["XX", "ZZ"], ["-XZ", "ZX"], ["+ZI", "-IZ"]],
    3: [["XZZ", "ZXI", "ZIX"], ["-XXX", "ZZI", "IZZ"], ["ZII", "IXI", "-IIY"]],
    4: [["XZII", "ZXZI", "IZXZ", "IIZX"], ["-YYII", "XXII", "IIZZ", "IIXX"], ["XZZZ", "ZXII", "ZIXI", "-ZIIX"]],
    5: [["XZIIZ", "ZXZII", "IZXZI", "IIZXZ", "ZIIZX"], ["-XZZZZ", "ZXIII", "ZIXII", "ZIIXI", "ZIIIX"]],
    6: [["XZIIII", "ZXZIII", "IZXZII", "IIZXZI", "IIIZXZ", "IIIIZX"], ["YZZZZZ", "-ZXIIII", "ZIXIII", "ZIIXII", "ZIIIXI", "ZIIIIX"]],
}
CONFS = {2: ["all"], 3: ["all", "linear"], 4: ["all", "linear", "star", "cycle"], 5: ["all", "linear", "star", "cycle", "T", "Q"],
         6: ["all", "linear", "star", "ladder", "E", "H", "Q"]}
CIRCS = {
    2: [[["h", [0]], ["cx", [0, 1]]], [["x", [1]], ["h", [0]], ["cz", [0, 1]], ["s", [1]]]],
    3: [[["h", [0]], ["cx", [0, 1]], ["cx", [1, 2]]], [["h", [2]], ["y", [0]], ["swap", [0, 2]], ["cz", [1, 2]]]],
    4: [[["h", [0]], ["cx", [0, 3]], ["h", [1]], ["cz", [1, 2]], ["sdg", [2]]]],
    5: [[["h", [0]], ["cx", [0, 4]], ["cx", [4, 2]], ["s", [2]], ["h", [1]], ["cz", [1, 3]]]],
    6: [[["h", [0]], ["cx", [0, 5]], ["cx", [5, 2]], ["h", [3]], ["cz", [3, 4]], ["cz", [1, 4]], ["z", [1]]]],
}
ENTRIES = ["prep", "readout", "compress", "mub_circuits", "mubs", "mub_info", "conn_graph", "available", "supported",
           "smc", "fst", "stabilizer", "classify", "lookup", "mub_lookup", "class_graph", "expand", "graph_codec"]


def random_desc(rnd):
    e = rnd.choice(ENTRIES)
    n = rnd.choice([2, 3, 3, 4, 4, 5, 6])
    d = {"entry": e, "n": n, "conn": rnd.choice(CONFS[n])}
    if e in ("prep", "readout", "smc", "stabilizer", "classify", "expand"):
        d["stab"] = rnd.randrange(len(STABS[n]))
        d["fmt"] = rnd.choice(["str", "mat", "graph" if e != "smc" else "str", "circuit"])
    if e in ("compress", "smc", "fst"):
        d["circ"] = rnd.randrange(len(CIRCS[n]))
        d["md"] = rnd.random() < 0.4          # the caller's circuit carries its own metadata
        d["tail"] = rnd.choice(["", "", "barrier"]) if e in ("smc", "fst") else ""   # ... or ends with a barrier (legal)
    if e in ("smc", "fst") and rnd.random() < 0.5:
        N = rnd.choice([n + 1, n + 2])
        d["N"] = N
        d["L"] = rnd.sample(range(N), n)
    if e in ("lookup", "class_graph"):
        K = {2: 2, 3: 5, 4: 18, 5: 93, 6: 760}[n]
        d["id"] = rnd.choice([0, 1, K - 1, rnd.randrange(K)])
    if e == "graph_codec":
        d["code"] = rnd.randrange(1 << (n * (n - 1) // 2))
    if e == "supported":
        d["conn"] = rnd.choice(CONFS[n] + ["ring", "T"])
    return d


def build_args(d):
    """Fresh argument objects for a descriptor (a dict name -> object)."""
    import numpy as np
    from qiskit import QuantumCircuit
    from htstabilizer.stabilizer import Stabilizer
    from htstabilizer.graph import Graph
    n = d["n"]
    a = {}
    if "stab" in d:
        strs = list(STABS[n][d["stab"]])
        fmt = d.get("fmt", "str")
        if fmt == "mat":
            R = np.zeros((n, n), dtype=np.int8)
            S = np.zeros((n, n), dtype=np.int8)
            ph = np.zeros(n, dtype=np.int8)
            for j, p in enumerate(strs):
                body = p.lstrip("+-")
                ph[j] = 1 if p.startswith("-") else 0
                for q, ch in enumerate(body):
                    R[q, j] = ch in "XY"
                    S[q, j] = ch in "ZY"
            a["matrices"] = (R, S, ph)
            a["stab"] = Stabilizer(a["matrices"])
        elif fmt == "graph":
            g = Graph.linear(n) if d["stab"] % 2 == 0 else Graph.star(n)
            a["graph"] = g
            a["stab"] = Stabilizer(g)
        elif fmt == "circuit":
            qc = QuantumCircuit(n)
            for nm, qs in CIRCS[n][d["stab"] % len(CIRCS[n])]:
                getattr(qc, nm)(*qs)
            a["stab_circuit"] = qc
            a["stab"] = Stabilizer(qc)
        else:
            a["strings"] = strs
            a["stab"] = Stabilizer(strs)
    if "circ" in d:
        N = d.get("N", n)
        qc = QuantumCircuit(N)
        for nm, qs in CIRCS[n][d["circ"]]:
            getattr(qc, nm)(*qs)
        if d.get("tail") == "barrier":
            qc.barrier()
        if d.get("md"):
            qc.metadata = {"owner": "caller", "run": 3}
        a["circuit"] = qc
    if "L" in d:
        a["L"] = list(d["L"])
    for code in d.get("edits", []):
        apply_edit(a, code, n)
    return a


def edit_choices(a, n, rnd):
    """Legal in-place edits a caller may apply to its *own* argument objects between two calls."""
    out = []
    i, j = rnd.sample(range(n), 2)
    if "graph" in a:
        out += [["g_add", i, j], ["g_rm", i, j], ["g_lc", i, 0], ["g_toggle", i, j]]
    if "matrices" in a:
        out += [["m_sign", i, 0], ["m_h", i, 0], ["m_cz", i, j], ["m_gen", i, j], ["m_s", i, 0]]
    if "stab_circuit" in a:
        out += [["sc_cz", i, j], ["sc_h", i, 0]]
    if "strings" in a:
        out += [["s_sign", i, 0], ["s_swap", i, j]]
    if "circuit" in a:
        out += [["c_cz", i, j], ["c_h", i, 0], ["c_x", i, 0]]
    if "L" in a:
        out += [["l_swap", i, j]]
    return out


def apply_edit(a, code, n):
    """Apply one edit (deterministic given its code) to the caller-owned argument objects in `a`."""
    op, i, j = code
    if op == "g_add":
        a["graph"].add_edge(i, j)
    elif op == "g_rm":
        a["graph"].remove_edge(i, j)
    elif op == "g_toggle":
        a["graph"].toggle_edge(i, j) if hasattr(a["graph"], "toggle_edge") else (
            a["graph"].remove_edge(i, j) if a["graph"].has_edge(i, j) else a["graph"].add_edge(i, j))
    elif op == "g_lc":
        a["graph"].local_complementation(i)
    elif op.startswith("m_"):
        R, S, ph = a["matrices"]
        if op == "m_sign":
            ph[i] ^= 1
        elif op == "m_h":                       # H on qubit i (still a valid stabilizer)
            t = R[i, :].copy()
            R[i, :] = S[i, :]
            S[i, :] = t
        elif op == "m_s":                       # S on qubit i
            S[i, :] ^= R[i, :]
        elif op == "m_cz":                      # CZ(i, j): changes the LC class in general
            S[i, :] ^= R[j, :]
            S[j, :] ^= R[i, :]
        elif op == "m_gen":                     # generator i *= generator j (signs: whatever results, still +-1)
            R[:, i] ^= R[:, j]
            S[:, i] ^= S[:, j]
    elif op == "sc_cz":
        a["stab_circuit"].cz(i, j)
    elif op == "sc_h":
        a["stab_circuit"].h(i)
    elif op == "s_sign":
        s = a["strings"][i]
        a["strings"][i] = s[1:] if s.startswith("-") else "-" + s.lstrip("+")
    elif op == "s_swap":
        a["strings"][i], a["strings"][j] = a["strings"][j], a["strings"][i]
    elif op == "c_cz":
        a["circuit"].cz(i, j)
    elif op == "c_h":
        a["circuit"].h(i)
    elif op == "c_x":
        a["circuit"].x(i)
    elif op == "l_swap":
        a["L"][i], a["L"][j] = a["L"][j], a["L"][i]
    else:
        raise ValueError(op)


def do_call(d, a):
    from htstabilizer import stabilizer_circuits as sc, mub_circuits as mc, connectivity_support as cs, tomography as tm
    from htstabilizer import circuit_lookup as cl, lc_classes as lc
    from htstabilizer.graph import Graph
    from htstabilizer.stabilizer import Stabilizer
    e, n, conn = d["entry"], d["n"], d["conn"]
    if e == "prep":
        return sc.get_preparation_circuit(a["stab"], conn)
    if e == "readout":
        return sc.get_readout_circuit(a["stab"], conn)
    if e == "compress":
        return sc.compress_preparation_circuit(a["circuit"], conn)
    if e == "mub_circuits":
        return mc.get_mub_circuits(n, conn)
    if e == "mubs":
        return mc.get_mubs(n, conn)
    if e == "mub_info":
        return mc.get_mub_info(n, conn)
    if e == "conn_graph":
        return cs.get_connectivity_graph(n, conn)
    if e == "available":
        return cs.get_available_connectivities()
    if e == "supported":
        return cs.is_connectivity_supported(n, conn)
    if e == "smc":
        return tm.stabilizer_measurement_circuit(a["circuit"], a["stab"], conn, a.get("L"))
    if e == "fst":
        return tm.full_state_tomography_circuits(a["circuit"], conn, a.get("L"))
    if e == "stabilizer":
        return [a["stab"].to_list(), a["stab"].to_list(True), a["stab"].validate()]
    if e == "classify":
        return lc.determine_lc_class(a["stab"])
    if e == "expand":
        return a["stab"].expand()
    if e == "lookup":
        info = cl.stabilizer_circuit_lookup(n, conn, d["id"])
        return [info, info.parse_circuit()]
    if e == "mub_lookup":
        return cl.mub_circuit_lookup(n, conn)
    if e == "class_graph":
        return getattr(lc, "LCClass%d" % n)(d["id"]).get_graph()
    if e == "graph_codec":
        g = Graph.decompress(n, d["code"])
        return [g, g.compress(), g.get_edges(), g.local_complemented(0)]
    raise ValueError(e)


def answer(d):
    """Digest of the result (or exception type) for a descriptor, with fresh arguments."""
    try:
        a = build_args(d)
        return dig(do_call(d, a))
    except Exception as e:          # noqa: BLE001
        return {"exc": type(e).__name__}


# ------------------------------------------------------------------------------------------------
# pristine zygote

def zygote_loop(rfd, wfd):
    """Runs in the forked pristine child: answer requests by forking a grandchild per request."""
    rf = os.fdopen(rfd, "r")
    wf = os.fdopen(wfd, "w")
    for line in rf:
        d = json.loads(line)
        r, w = os.pipe()
        pid = os.fork()
        if pid == 0:
            os.close(r)
            try:
                out = json.dumps(answer(d))
            except BaseException as e:  # noqa: BLE001
                out = json.dumps({"exc": "zygote:" + type(e).__name__})
            os.write(w, out.encode())
            os._exit(0)
        os.close(w)
        data = b""
        while True:
            b = os.read(r, 1 << 16)
            if not b:
                break
            data += b
        os.close(r)
        os.waitpid(pid, 0)
        wf.write(data.decode() + "\n")
        wf.flush()
    os._exit(0)


class Zygote:
    def __init__(self):
        r1, w1 = os.pipe()
        r2, w2 = os.pipe()
        pid = os.fork()
        if pid == 0:
            os.close(w1)
            os.close(r2)
            zygote_loop(r1, w2)
        os.close(r1)
        os.close(w2)
        self.w = os.fdopen(w1, "w")
        self.r = os.fdopen(r2, "r")
        self.pid = pid
        self.memo = {}

    def ask(self, d):
        k = json.dumps(d, sort_keys=True)
        if k not in self.memo:
            self.w.write(k + "\n")
            self.w.flush()
            self.memo[k] = json.loads(self.r.readline())
        return self.memo[k]

    def close(self):
        try:
            self.w.close()
            os.waitpid(self.pid, 0)
        except Exception:           # noqa: BLE001
            pass


# ------------------------------------------------------------------------------------------------
# adversarial mutation of returned objects

def mutate(o, rnd, depth=0):
    """Mutate a returned object in place in some hostile way.  Returns a short description or None."""
    import numpy as np
    from qiskit import QuantumCircuit
    if depth > 3:
        return None
    name = type(o).__name__
    try:
        if isinstance(o, list):
            if o and rnd.random() < 0.5:
                sub = mutate(rnd.choice(o), rnd, depth + 1)
                if sub:
                    return "list item: " + sub
            k = rnd.randrange(6)
            if k == 0:
                o.clear()
                return "list.clear()"
            if k == 1:
                o.append(["bogus"])
                return "list.append"
            if k == 2:
                o.reverse()
                return "list.reverse()"
            if k == 3 and o:
                o[rnd.randrange(len(o))] = "XXX"
                return "list item assignment"
            if k == 4 and o:
                o.pop()
                return "list.pop()"
            if o and isinstance(o[0], list) and o[0]:
                o[0][0] = "YYY"
                return "nested item assignment"
            o.append(None)
            return "list.append"
        if isinstance(o, QuantumCircuit):
            k = rnd.randrange(4)
            if k == 0 and o.num_qubits:
                o.x(0)
                o.h(o.num_qubits - 1)
                return "circuit gates appended"
            if k == 1:
                o.data.clear()
                return "circuit.data.clear()"
            if k == 2 and isinstance(o.metadata, dict) and "readout info" in o.metadata:
                ri = o.metadata["readout info"]
                ri.circuit.x(0)
                ri.total_num_qubits = 99
                return "readout info mutated"
            o.metadata = {"junk": 1}
            o.name = "mutated"
            return "circuit metadata replaced"
        if isinstance(o, dict):
            if rnd.random() < 0.5:
                o.clear()
                return "dict.clear()"
            for k in list(o):
                o[k] = -1
            return "dict values overwritten"
        if isinstance(o, np.ndarray):
            if o.flags.writeable and o.size:
                o.fill(1)
                return "ndarray.fill(1)"
            return None
        if isinstance(o, tuple):
            if o:
                return mutate(rnd.choice(o), rnd, depth + 1)
            return None
        if name == "Graph":
            k = rnd.randrange(3)
            if k == 0:
                o.add_edge(0, o.num_vertices - 1)
                o.remove_edge(0, 1)
                return "graph edges edited"
            if k == 1:
                o.local_complementation(0)
                return "graph complemented"
            o.adjacency_matrix.fill(1)
            return "graph adjacency filled"
        if name == "MUBInfo":
            if rnd.random() < 0.5:
                return "MUBInfo.mubs: " + str(mutate(o.mubs, rnd, depth + 1))
            return "MUBInfo.circuits: " + str(mutate(o.circuits, rnd, depth + 1))
        if name == "Stabilizer":
            return None     # aliases the caller's own arrays by design; not part of the workload
    except Exception as e:          # noqa: BLE001
        return "mutation failed: %s" % type(e).__name__
    return None


# ------------------------------------------------------------------------------------------------

def run_session(seed, nevents):
    _setup()
    zyg = Zygote()                                  # pristine: forked before any library call
    opened = []

    def hook(event, args):
        if event == "open" and args and isinstance(args[0], str) and args[0].endswith(".txt") and "htstabilizer" in args[0]:
            opened.append(os.path.basename(args[0]))
    sys.addaudithook(hook)
    rnd = random.Random(seed)
    pool = [random_desc(rnd) for _ in range(40)]   # few distinct requests -> many re-requests
    live = []                                       # (descriptor, returned object)
    kept = []                                       # [descriptor, object, digest at return, event] - never mutated by the caller
    kept_args = {}                                  # descriptor key -> argument objects reused across calls
    log = []
    viol = []
    stats = {"calls": 0, "cold": 0, "warm": 0, "mutations": 0, "rerequests": 0, "reused_args": 0, "retained_checks": 0, "entries": {},
             "arg_edits": 0, "calls_after_arg_edit": 0, "edit_ops": {}}
    seen = set()
    for ev in range(nevents):
        r = rnd.random()
        if r < 0.3 and live:
            d0, obj = rnd.choice(live)
            m = mutate(obj, rnd)
            if m and not m.startswith("mutation failed"):
                stats["mutations"] += 1
                log.append({"ev": ev, "mutate": m, "of": d0["entry"]})
            continue
        edited = None
        if 0.3 <= r < 0.45 and kept_args:
            # the caller edits one of its *own* argument objects in place (legal) and calls again with the very same objects:
            # the answer must be what a pristine process gives for arguments built and edited the same way
            cand = sorted(kk for kk, aa in kept_args.items() if any(x in aa for x in ("graph", "matrices", "stab_circuit", "strings", "circuit")))
            heavy = [kk for kk in cand if "graph" in kept_args[kk] or "matrices" in kept_args[kk]]
            k0 = rnd.choice(heavy if heavy and rnd.random() < 0.6 else (cand or sorted(kept_args)))
            d0 = json.loads(k0)
            if len(d0.get("edits", [])) < 5:
                ch = edit_choices(kept_args[k0], d0["n"], rnd)
                if ch:
                    code = rnd.choice(ch)
                    try:
                        apply_edit(kept_args[k0], code, d0["n"])
                        edited = (dict(d0, edits=d0.get("edits", []) + [code]), kept_args.pop(k0))
                        stats["arg_edits"] += 1
                        stats["edit_ops"][code[0]] = stats["edit_ops"].get(code[0], 0) + 1
                        log.append({"ev": ev, "edit_own_argument": code, "of": d0["entry"]})
                    except Exception:       # noqa: BLE001
                        kept_args.pop(k0, None)
        if edited:
            d = edited[0]
        else:
            d = rnd.choice(pool) if r < 0.9 else random_desc(rnd)
        k = json.dumps(d, sort_keys=True)
        if k in seen:
            stats["rerequests"] += 1
        seen.add(k)
        del opened[:]
        reuse = bool(edited) or (k in kept_args and rnd.random() < 0.5)
        try:
            a = edited[1] if edited else (kept_args[k] if reuse else build_args(d))
        except Exception:           # noqa: BLE001
            continue
        if edited:
            stats["calls_after_arg_edit"] += 1
        if reuse:
            stats["reused_args"] += 1
        before = dig({kk: vv for kk, vv in a.items()})
        try:
            res = do_call(d, a)
            got = dig(res)
        except Exception as e:      # noqa: BLE001
            res = None
            got = {"exc": type(e).__name__}
        after = dig({kk: vv for kk, vv in a.items()})
        kept_args[k] = a
        stats["calls"] += 1
        stats["cold" if opened else "warm"] += 1
        stats["entries"][d["entry"]] = stats["entries"].get(d["entry"], 0) + 1
        want = zyg.ask(d)
        rec = {"ev": ev, "call": d, "cache": "cold" if opened else "warm", "reused_args": reuse}
        log.append(rec)
        if before != after:
            viol.append({"key": "argument-modified entry=%s" % d["entry"],
                         "what": "call %s modified an object passed in (event %d)" % (k, ev), "event": ev})
        if got != want:
            recent = [x for x in log[-12:] if "mutate" in x]
            viol.append({"key": "history-dependence entry=%s" % d["entry"],
                         "what": "event %d: %s returned a result that differs from a pristine process's answer for the same arguments "
                                 "(%s cache, arguments %s); recent caller-side mutations: %s; got %s ..., pristine %s ..."
                                 % (ev, k, rec["cache"], "reused" if reuse else "fresh", recent[-4:], json.dumps(got)[:160], json.dumps(want)[:160]),
                         "event": ev})
        # retention monitor: objects handed out earlier and not touched by the caller must still be what they were
        stats["retained_checks"] += len(kept)
        for item in kept:
            d0, obj0, dig0, ev0 = item
            now = dig(obj0)
            if now != dig0:
                viol.append({"key": "returned-object-changed-later entry=%s" % d0["entry"],
                             "what": "the object returned at event %d for %s was changed by the library during a later call (event %d: %s); "
                                     "at return %s ..., now %s ..." % (ev0, json.dumps(d0, sort_keys=True), ev, k, json.dumps(dig0)[:120], json.dumps(now)[:120]),
                             "event": ev})
                item[2] = now
        if res is not None:
            if rnd.random() < 0.5:
                live.append((d, res))
                if len(live) > 60:
                    live.pop(rnd.randrange(len(live)))
            else:
                kept.append([d, res, got, ev])
                if len(kept) > 25:
                    kept.pop(rnd.randrange(len(kept)))
    zyg.close()
    memo = zyg.memo
    return {"stats": stats, "violations": viol[:30], "log_tail": log[-6:], "requests": list(memo.items())}


def main():
    mode = sys.argv[1]
    if mode == "session":
        out = run_session(int(sys.argv[2]), int(sys.argv[3]))
        sys.stdout.write("\n@@RESULT@@" + json.dumps(out) + "\n")
    elif mode == "reference":
        _setup()
        zygote_loop(0, 1)


if __name__ == "__main__":
    main()
