"""C16 - the local-Clifford layer search is sound and complete.

Monitor: find_local_clifford_layer(R, S, graph) and local_clifford_layer_to_circuit(A) are called on
full stabilizers and partial operator sets against graphs of the same and of other classes; every
outcome (layer / None / exception) is judged by hv.monitor.contracts.layer_judge: brute force over all
6^n layers decides existence (n<=5; at n=6 for full stabilizers the LC-orbit labels decide, for
partial sets brute force), a returned layer must consist of genuine single-qubit Cliffords, map every
operator into the graph state's group, and the generated gate sequence must implement it.
The same contracts also run in situ inside get_preparation_circuit.
"""
import random

import numpy as np

from ..core import Partial, call, exc_name
from ..monitor import contracts
from ..oracle import groups, lcorbit
from ..oracle.pauli import conj_circuit, hmul, to_str
from ..workload import pipeline as wp, stabilizers as ws

PID = "C16"
ASSUMPTIONS = ["existence oracle = brute force over 6^n symplectic layers (n<=5, and n=6 partial sets) / LC-orbit labels (n=6 full stabilizers)",
               "n>=5 inputs and partial sets are sampled; single-operator sets at n=6 are excluded (the search needs 2^18 kernel combinations, ~13 s per call)"]


def RULE(tier):
    return ("cases = (set of m<=n Pauli operators, graph): every stabilizer group of n<=3 against every graph, every group "
            "of n=4 against %s, class-stratified members of n=5,6 against graphs of their own orbit and of other orbits, partial "
            "sets (m=0..n-1 for n<=4, m>=1 for n=5, m>=2 for n=6) drawn from inside an LC image of the graph's group (layer "
            "exists) and at random (mostly none), with repeated and identity operators; non-trivial = graph with an edge and "
            "m>=1; distinct = distinct (n, operators, graph)" % ("8 graphs incl. one of its own orbit" if tier == "quick" else "all 64 graphs"))


def plan(tier, seed):
    q = tier == "quick"
    t = [("full", 2, groups.group_tasks(2), "all", seed), ("full", 3, groups.group_tasks(3), "all", seed)]
    sd = groups.group_tasks(4)
    random.Random(seed).shuffle(sd)
    for ch in wp.chunks(sd, 16):
        t.append(("full", 4, ch, 8 if q else "all", seed))
    for n, reps, k in ((5, 2 if q else 12, 16), (6, 1 if q else 6, 32)):
        labels = sorted(set(lcorbit.orbit_table(n)))
        random.Random(seed + n).shuffle(labels)
        for i, ch in enumerate(wp.chunks(labels, k)):
            t.append(("members", n, ch, reps, seed * 100 + i))
    for n, cnt in ((2, 300), (3, 600), (4, 800), (5, 400), (6, 120)):
        cnt = cnt if q else cnt * 8
        for i in range(8):
            t.append(("partial", n, cnt // 8, seed * 100 + i))
    if tier == "thorough":
        t.append(("repo-tests",))
    t.append(("helpers", seed))
    # structured partial sets: uniform-letter operators on named graphs (large kernels, few and extreme solutions)
    for i in range(16):
        t.append(("uniform", (30 if q else 200), seed * 100 + i))
    random.Random(seed).shuffle(t)
    return t


def work_helpers(p, seed):
    """The documented helper API around the search: generate_local_clifford_symplectic(_from_id), check_LC and
    local_clifford_layer_to_circuit on every layer of n <= 3 qubits and on random layers up to n = 6."""
    import itertools
    from htstabilizer.find_local_clifford_layer import (generate_local_clifford_symplectic_from_id, generate_local_clifford_symplectic,
                                                        check_LC, local_clifford_layer_to_circuit)
    from htstabilizer.graph import Graph
    rnd = random.Random(seed)
    DOC = [(1, 0, 0, 1), (0, 1, 1, 0), (1, 0, 1, 1), (1, 1, 1, 0), (0, 1, 1, 1), (1, 1, 0, 1)]     # I H S HS SH HSH as documented
    combos = [c for n in (1, 2, 3) for c in itertools.product(range(6), repeat=n)] + \
             [tuple(rnd.randrange(6) for _ in range(n)) for n in (4, 5, 6) for _ in range(150)]
    for combo in combos:
        n = len(combo)
        p.evals += 1
        case = {"kind": "helper", "ids": list(combo)}
        ok, A = call(generate_local_clifford_symplectic_from_id, list(combo))
        ok2, A2 = call(generate_local_clifford_symplectic, [list(DOC[c]) for c in combo])
        if not ok or not ok2:
            p.violate("layer-helper raises", "generate_local_clifford_symplectic(_from_id) raised on ids %s" % (combo,), case)
            continue
        blocks = [tuple(int(np.asarray(A[j])[q, q]) for j in range(4)) for q in range(n)]
        blocks2 = [tuple(int(np.asarray(A2[j])[q, q]) for j in range(4)) for q in range(n)]
        offdiag = any(np.any(np.asarray(b) - np.diag(np.diag(np.asarray(b)))) for b in list(A) + list(A2))
        if blocks != [DOC[c] for c in combo] or blocks2 != blocks or offdiag:
            p.violate("layer-helper wrong-blocks", "ids %s give per-qubit blocks %s / %s, documented %s" % (combo, blocks, blocks2, [DOC[c] for c in combo]), case)
            continue
        contracts.take()
        ok, qc = call(local_clifford_layer_to_circuit, A)
        if not ok:
            p.violate("local_clifford_layer_to_circuit raises", "raised %s on the layer of ids %s" % (exc_name(qc), combo), case)
        else:
            contracts.layer_circuit_post(A, qc)
            for v in contracts.take():
                p.violate(v["contract"] + " " + v["tag"], v["what"], case)
            p.counters["layer circuits checked"] += 1
        # check_LC against the oracle on a random graph and random operators
        if n >= 2:
            code = rnd.randrange(1 << (n * (n - 1) // 2))
            rows = lcorbit.adj_rows(code, n)
            Gm = np.array([[(rows[a] >> b) & 1 for b in range(n)] for a in range(n)], dtype=np.int8)
            if rnd.random() < 0.5:      # operators that the layer does map into the group
                inv = {0: 0, 1: 1, 2: 2, 3: 4, 4: 3, 5: 5}
                base = [(g[0], g[1]) for g in lcorbit.graph_gens(code, n)]
                ops = contracts.apply_layer([DOC[inv[c]] for c in combo], base, n)
            else:
                ops = [(rnd.getrandbits(n), rnd.getrandbits(n)) for _ in range(rnd.randint(1, n))]
            R, S = mats(ops, n)
            want = contracts.in_graph_group(contracts.apply_layer([DOC[c] for c in combo], ops, n), rows, n)
            ok, got = call(check_LC, R, S, Graph(Gm), A)
            p.counters["check_LC -> %s" % (got if ok else "exc")] += 1
            if not ok or bool(got) != want:
                p.violate("check_LC wrong", "check_LC returned %s for layer ids %s, operators %s, graph %d; the layer %s the operators into the graph state's group"
                          % (got if ok else exc_name(got), combo, ops, code, "maps" if want else "does not map"), case)
        p.nontrivial(("helper", combo))
    p.sample({"helper API": "all layers n<=3 + random layers", "layers": len(combos)})


def mats(ops, n):
    m = len(ops)
    R = np.zeros((n, m), dtype=np.int8)
    S = np.zeros((n, m), dtype=np.int8)
    for j, (x, z) in enumerate(ops):
        for qb in range(n):
            R[qb, j] = (x >> qb) & 1
            S[qb, j] = (z >> qb) & 1
    return R, S


def run_case(p, ops, code, n, exists=None):
    from htstabilizer.find_local_clifford_layer import find_local_clifford_layer, local_clifford_layer_to_circuit
    from htstabilizer.graph import Graph
    p.evals += 1
    case = {"n": n, "ops": [to_str((x, z, 0), n, False) for x, z in ops], "graph": code}
    rows = lcorbit.adj_rows(code, n)
    Gm = np.array([[(rows[a] >> b) & 1 for b in range(n)] for a in range(n)], dtype=np.int8)
    R, S = mats(ops, n)
    R0, S0 = R.copy(), S.copy()
    ok, A = call(find_local_clifford_layer, R, S, Graph(Gm.copy()))
    if code and ops:
        p.nontrivial((n, tuple(ops), code))
    if not ok:
        p.counters["outcome exception"] += 1
        p.violate("find_local_clifford_layer raises %s" % exc_name(A),
                  "find_local_clifford_layer raised %s (%s) for operators %s and graph %d; it must return a layer or None"
                  % (exc_name(A), str(A)[:120], case["ops"], code), case)
        return
    p.counters["outcome layer" if A is not None else "outcome none"] += 1
    if not (np.array_equal(R, R0) and np.array_equal(S, S0)):
        p.counters["search modified R or S (not judged here; see C13)"] += 1
    for tag, what in contracts.layer_judge(R0, S0, Graph(Gm), A, exists):
        p.violate("find_local_clifford_layer " + tag, "%s; operators %s, graph %d" % (what, case["ops"], code), case)
    if A is not None:
        contracts.take()
        ok, qc = call(local_clifford_layer_to_circuit, A)
        if not ok:
            p.violate("local_clifford_layer_to_circuit raises", "raised %s on the layer returned by the search" % exc_name(qc), case)
        else:
            contracts.layer_circuit_post(A, qc)
            p.counters["layer circuits checked"] += 1
        for v in contracts.take():
            p.violate(v["contract"] + " " + v["tag"], v["what"], case)
    if len(p.samples) < 2 and code and len(ops) >= 2:
        p.sample(dict(case, outcome="layer" if A is not None else "none"))


def work(task):
    if task[0] == "repo-tests":
        # the repository's own tests as one more workload, with the contracts attached
        p = Partial()
        r = contracts.run_repo_tests(('layer',), ['test_find_local_clifford_layer.py', 'test_examples.py'])
        if r is None:
            p.counters["repository tests under contracts: could not run"] += 1
            return p
        log, evals, status = r
        p.evals += sum(v for k, v in evals.items() if "out-of-domain" not in k)
        p.counters["repository tests under contracts: contract evaluations"] += sum(evals.values())
        for v in log:
            if v["contract"].startswith(('find_local_clifford_layer', 'local_clifford_layer_to_circuit')):
                p.violate("under-repo-tests " + v["contract"] + " " + v.get("tag", ""), v["what"] + " (while running the repository's own tests)", dict(v.get("case") or {}, repo_tests=True))
        p.extra["contract_evals"] = __import__("collections").Counter({k: v for k, v in evals.items()})
        return p
    contracts.take()
    p = Partial()
    kind = task[0]
    if kind == "helpers":
        work_helpers(p, task[1])
        return p
    if kind == "uniform":
        _, cnt, seed = task
        rnd = random.Random(seed)
        for i in range(cnt):
            n = rnd.choice([5, 6, 6])
            full = (1 << (n * (n - 1) // 2)) - 1
            star = lcorbit.code_of([((1 << n) - 2) if v == 0 else 1 for v in range(n)], n)
            ring = lcorbit.code_of([(1 << ((v + 1) % n)) | (1 << ((v - 1) % n)) for v in range(n)], n)
            line = lcorbit.code_of([((1 << (v + 1)) if v + 1 < n else 0) | ((1 << (v - 1)) if v else 0) for v in range(n)], n)
            code = rnd.choice([full, full, star, ring, line, 0])
            m = rnd.choice([2, 2, 3])
            ops = []
            for _ in range(m):
                sub = rnd.randrange(1, 1 << n)
                if rnd.random() < 0.5 and bin(sub).count("1") % 2:
                    sub ^= 1 << rnd.randrange(n)            # even weight
                    sub = sub or 3
                letter = rnd.choice("XYZ")
                ops.append((sub if letter in "XY" else 0, sub if letter in "ZY" else 0))
            if rnd.random() < 0.4 and m >= 2:
                ops[1] = (ops[1][0] | 0, ops[1][1]) if ops[1] != ops[0] else ((1 << n) - 1 if ops[0][0] == 0 else 0, (1 << n) - 1 if ops[0][1] == 0 else 0)
            ex = contracts.layer_exists(ops, lcorbit.adj_rows(code, n), n) is not None
            run_case(p, ops, code, n, exists=ex)
            p.counters["uniform-letter partial set n=%d m=%d" % (n, m)] += 1
        return p
    if kind == "full":
        _, n, seeds, ngraphs, seed = task
        rnd = random.Random("%s-%s" % (seed, seeds[0]))
        table = lcorbit.orbit_table(n)
        orb = lcorbit.orbit_members(n)
        M = 1 << (n * (n - 1) // 2)
        for sd in seeds:
            for rows in groups.groups_from_task(sd, n):
                gens = [groups.split(v, n) for v in rows]
                lab = lcorbit.orbit_label(gens, n)
                ops = [(g[0], g[1]) for g in groups.random_presentation([g + (0,) for g in gens], n, rnd)]
                if ngraphs == "all":
                    codes = range(M)
                else:
                    codes = [rnd.choice(orb[lab])] + [rnd.randrange(M) for _ in range(ngraphs - 1)]
                for code in codes:
                    run_case(p, ops, code, n, exists=(table[code] == lab))
                    p.counters["full stabilizer n=%d" % n] += 1
    elif kind == "members":
        _, n, labels, reps, seed = task
        rnd = random.Random(seed)
        table = lcorbit.orbit_table(n)
        orb = lcorbit.orbit_members(n)
        M = 1 << (n * (n - 1) // 2)
        for lab in labels:
            for r in range(reps):
                m = ws.member(lab, n, rnd, orb[lab])
                ops = [(g[0], g[1]) for g in m["gens"]]
                for code in (rnd.choice(orb[lab]), rnd.choice(orb[lab]), rnd.randrange(M), orb[rnd.choice(list(orb))][0]):
                    run_case(p, ops, code, n, exists=(table[code] == lab))
                    p.counters["full stabilizer n=%d" % n] += 1
    else:
        _, n, cnt, seed = task
        rnd = random.Random(seed)
        M = 1 << (n * (n - 1) // 2)
        lo = 0 if n <= 4 else (1 if n == 5 else 2)
        for i in range(cnt):
            m = rnd.randint(lo, n - 1) if i % 9 else n
            code = rnd.randrange(M)
            if i % 2 == 0:
                base = lcorbit.graph_gens(code, n)
                g = [(nm, (qb,)) for qb in range(n) for nm in lcorbit.LC1[rnd.randrange(6)]]
                base = [conj_circuit(b, g) for b in base]
                ops = []
                for _ in range(m):
                    acc = (0, 0, 0)
                    for k in range(n):
                        if rnd.getrandbits(1):
                            acc = hmul(acc, base[k])
                    ops.append((acc[0], acc[1]))
            else:
                ops = [(rnd.getrandbits(n), rnd.getrandbits(n)) for _ in range(m)]
            if m >= 2 and i % 5 == 0:
                ops[rnd.randrange(m)] = ops[rnd.randrange(m)]           # repeated operator
            if m >= 1 and i % 7 == 0:
                ops[rnd.randrange(m)] = (0, 0)                          # identity operator
            ex = None
            if n == 6:
                ex = contracts.layer_exists(ops, lcorbit.adj_rows(code, n), n) is not None
            run_case(p, ops, code, n, exists=ex)
            p.counters["partial set n=%d m=%d" % (n, m)] += 1
    return p


def finalize(total, tier, seed):
    from ..core import Inconclusive
    c = total.counters
    if not (c["outcome layer"] and c["outcome none"] or total.violations):
        raise Inconclusive("both outcomes (layer / none) must be observed: %d / %d" % (c["outcome layer"], c["outcome none"]))
    if not c["layer circuits checked"] and not total.violations:
        raise Inconclusive("local_clifford_layer_to_circuit never checked")
    total.extra["ev_exhaustive_part"] = "all groups x all graphs n<=3" + ("; all groups x all 64 graphs n=4" if tier == "thorough" else "")


def replay(cj):
    from ..oracle.pauli import parse_pauli
    p = Partial()
    n = cj["n"]
    ops = [parse_pauli(s)[:2] for s in cj["ops"]]
    ex = contracts.layer_exists(ops, lcorbit.adj_rows(cj["graph"], n), n) is not None if n <= 6 else None
    run_case(p, ops, cj["graph"], n, exists=ex)
    return p.violations
