"""C14 - all input formats of a stabilizer describe the same signed group.

Monitor on the Stabilizer constructor (five formats), .R/.S/.phases, to_list() in both conventions,
Graph.to_circuit() and get_preparation_circuit: the data the library derives from each format is
compared with an independent parser of Pauli strings and an independent circuit simulator.
"""
import itertools
import random

import numpy as np

from ..core import Partial, call, exc_name
from ..oracle import conn as oconn, groups, lcorbit
from ..oracle.circ import fmt as fmt_gates
from ..oracle.pauli import gates_of, parse_pauli, state_of, to_str
from ..workload import pipeline as wp, stabilizers as ws

PID = "C14"
ASSUMPTIONS = ["string convention as documented: first character = qubit 0, optional sign, Y = Hermitian Pauli Y",
               "n>=4 groups, 6-vertex graphs (beyond the sampled ones) and circuits are sampled"]


def RULE(tier):
    return ("cases = one stabilizer description pushed through the library: all signed generator lists of valid groups for "
            "n=2 in every generating set, all groups x all sign vectors for n=3, class-stratified members for n=4..6 in the "
            "formats strings(+/-), matrices (with/without sign vector, several dtypes), graph, circuit; all graphs on 2..5 "
            "vertices and %d on 6 vertices incl. the edgeless ones (constructor and to_circuit); %d random Clifford circuits "
            "(lengths 0..300, incl. id/y/swap); non-trivial = entangled state or non-empty circuit; distinct = distinct "
            "(format, n, description)" % ((4000, 1500) if tier == "quick" else (32768, 20000)))


def plan(tier, seed):
    q = tier == "quick"
    t = [("lists2", seed), ("enum3", seed)]
    for n, reps, k in ((4, 10 if q else 60, 2), (5, 3 if q else 20, 8), (6, 1 if q else 6, 16)):
        t += [("members",) + x[1:] for x in wp.member_tasks(n, reps, k, seed, confs=1, plain_graph_every=5)]
    for n in (2, 3, 4, 5):
        t.append(("graphs", n, list(range(1 << (n * (n - 1) // 2)))))
    codes6 = list(range(1 << 15)) if not q else sorted(set([0, 1, (1 << 15) - 1] + random.Random(seed).sample(range(1 << 15), 4000)))
    for ch in wp.chunks(codes6, 16):
        t.append(("graphs", 6, ch))
    for i in range(16):
        t.append(("circuits", (1500 if q else 20000) // 16, seed * 100 + i))
    random.Random(seed).shuffle(t)
    return t


def lib_gens(s):
    """(x, z, s) per generator from the object's R/S/phases arrays."""
    R, S, ph = np.asarray(s.R), np.asarray(s.S), np.asarray(s.phases)
    n = int(s.num_qubits)
    return [(sum((int(R[q, j]) & 1) << q for q in range(n)), sum((int(S[q, j]) & 1) << q for q in range(n)), int(ph[j]) & 1)
            for j in range(n)]


def check_object(p, s, want_gens, n, fmt, case, exact=True):
    """The object must denote the generators `want_gens` (exact: same generators in order; else same signed group)."""
    ok, got = call(lib_gens, s)
    key = "format %s " % fmt
    if not ok:
        p.violate(key + "malformed-object", "R/S/phases unreadable: %s" % got, case)
        return
    if exact and got != list(want_gens):
        p.violate(key + "wrong-generators", "object built from %s holds generators %s, expected %s"
                  % (fmt, [to_str(g, n) for g in got], [to_str(g, n) for g in want_gens]), case)
    if not exact and groups.canon(got, n) != groups.canon(list(want_gens), n):
        p.violate(key + "wrong-signed-group", "object built from %s generates %s, expected the group of %s"
                  % (fmt, [to_str(g, n) for g in got], [to_str(g, n) for g in want_gens]), case)
    # export: exact round trip and mirror image
    ok, lst = call(s.to_list)
    ok2, rev = call(s.to_list, True)
    if not ok or not ok2:
        p.violate(key + "to_list-raises", "to_list raised", case)
        return
    if [parse_pauli(x) for x in lst] != got or any(len(x.lstrip("+-")) != n for x in lst):
        p.violate("export wrong", "to_list() = %s does not spell the object's generators %s" % (lst, [to_str(g, n) for g in got]), case)
    if rev != [x[:len(x) - n] + x[len(x) - n:][::-1] for x in lst]:
        p.violate("export mirror", "to_list(qiskit_convention=True) = %s is not the mirror image of %s" % (rev, lst), case)
    from htstabilizer.stabilizer import Stabilizer
    ok, s2 = call(Stabilizer, list(lst))
    if not ok or call(s2.to_list) != (True, lst):
        p.violate("export round-trip", "Stabilizer(%s).to_list() does not round-trip" % lst, case)


def run_member(p, case):
    """One signed group through all formats + the preparation API in each."""
    from htstabilizer.stabilizer import Stabilizer
    from htstabilizer.stabilizer_circuits import get_preparation_circuit
    n = case["n"]
    gens = case["gens"]
    cj = dict(wp.case_json(case), kind="member")
    fmts = ["str+", "str", "mat3"] + (["mat"] if not any(g[2] for g in gens) else []) + \
        (["circuit"] if case.get("circuit") else []) + (["graph"] if case.get("graph_state") else [])
    want = groups.canon(gens, n)
    prepared = {}
    for f in fmts:
        p.evals += 1
        p.counters["format " + f] += 1
        ok, st = call(ws.make_stabilizer, case, f, random.Random(n + len(f)))
        if not ok:
            p.violate("format %s constructor-raises" % f, "Stabilizer(%s) raised %s: %s" % (f, exc_name(st), st), cj)
            continue
        s = st[0]
        if f == "graph":
            check_object(p, s, lcorbit.graph_gens(case["code"], n), n, f, cj, exact=True)
        else:
            check_object(p, s, gens, n, f, cj, exact=(f != "circuit"))
        if case.get("conn"):
            ok, qc = call(get_preparation_circuit, s, case["conn"])
            if ok:
                prepared[f] = groups.canon(state_of(gates_of(qc), n), n)
    if len(set(prepared.values())) > 1 or any(v != want for v in prepared.values()):
        p.violate("formats prepare-different-states", "preparation circuits obtained from the formats %s of one signed group %s prepare states %s"
                  % (sorted(prepared), ws.strings(gens, n), {k: [to_str(g, n) for g in (v or [])] for k, v in prepared.items()}), cj)
    if case.get("label"):
        p.nontrivial(("member", n, want))


def work(task):
    from htstabilizer.stabilizer import Stabilizer
    from htstabilizer.graph import Graph
    p = Partial()
    kind = task[0]
    if kind == "lists2":
        n = 2
        rnd = random.Random(task[1])
        for rows in groups.all_groups(n):
            base = [groups.split(v, n) for v in rows]
            els = [(x, z) for x in range(4) for z in range(4)]
            # every ordered generating pair of the group x every sign pattern
            grp = {(0, 0), base[0], base[1], (base[0][0] ^ base[1][0], base[0][1] ^ base[1][1])}
            for a, b in itertools.permutations(sorted(grp - {(0, 0)}), 2):
                for sa, sb in itertools.product((0, 1), repeat=2):
                    case = {"n": n, "gens": [a + (sa,), b + (sb,)], "circuit": None, "code": None, "graph_state": False,
                            "conn": "all", "fmt": "str", "label": lcorbit.orbit_label(base, n)}
                    run_member(p, case)
        p.sample({"n": 2, "generators": ws.strings(case["gens"], 2)})
    elif kind == "enum3":
        n = 3
        for rows in groups.all_groups(n):
            base = [groups.split(v, n) for v in rows]
            for sg in itertools.product((0, 1), repeat=n):
                case = {"n": n, "gens": [b + (s,) for b, s in zip(base, sg)], "circuit": None, "code": None, "graph_state": False,
                        "conn": ("all", "linear")[sum(sg) % 2], "fmt": "str", "label": lcorbit.orbit_label(base, n)}
                run_member(p, case)
        p.sample({"n": 3, "generators": ws.strings(case["gens"], 3)})
    elif kind == "members":
        for case in wp.iter_cases(("members",) + task[1:]):
            run_member(p, case)
        p.sample(wp.sample_of(case))
    elif kind == "graphs":
        _, n, codes = task
        for code in codes:
            p.evals += 2
            rows = lcorbit.adj_rows(code, n)
            A = np.array([[(rows[a] >> b) & 1 for b in range(n)] for a in range(n)], dtype=(np.int8, np.int64)[code % 2])
            case = {"kind": "graph", "n": n, "code": code}
            want = lcorbit.graph_gens(code, n)
            ok, g = call(Graph, A.copy())
            if not ok:
                p.violate("format graph constructor-raises", "Graph(adjacency) raised %s" % exc_name(g), case)
                continue
            ok, s = call(Stabilizer, g)
            if not ok:
                p.violate("format graph constructor-raises", "Stabilizer(Graph) raised %s" % exc_name(s), case)
            else:
                check_object(p, s, want, n, "graph", case, exact=True)
            ok, qc = call(g.to_circuit)
            p.counters["graph.to_circuit " + ("edgeless" if code == 0 else "with edges")] += 1
            if not ok:
                p.violate("graph.to_circuit raises %s" % ("edgeless" if code == 0 else ""), "Graph.to_circuit() raised %s (%s) for graph id %d on %d vertices"
                          % (exc_name(qc), str(qc)[:100], code, n), case)
            elif groups.canon(state_of(gates_of(qc), n), n) != groups.canon(want, n):
                p.violate("graph.to_circuit wrong-state", "Graph.to_circuit() [%s] does not prepare the +graph state of graph %d" % (fmt_gates(gates_of(qc)), code), case)
            if code:
                p.nontrivial(("graph", n, code))
        p.sample({"n": n, "graph id": codes[len(codes) // 2], "expected generators": ws.strings(lcorbit.graph_gens(codes[len(codes) // 2], n), n)})
    else:
        _, cnt, seed = task
        rnd = random.Random(seed)
        for i in range(cnt):
            n = 2 + i % 5
            L = rnd.choice([0, 1, 2, 5, 12, 40, 120, 300])
            g = ws.random_gates(n, L, rnd, ("uniform", "single", "two", "swapchain", "yheavy", "idpad", "redundant", "subset")[i % 8])
            case = {"kind": "circuit", "n": n, "gates": [[nm, list(qs)] for nm, qs in g]}
            p.evals += 1
            regs = ws.random_registers(n, rnd) if i % 3 == 1 else None
            case["registers"] = regs
            if regs:
                p.counters["circuits on several quantum registers"] += 1
            ok, s = call(lambda: Stabilizer(ws.qiskit_circuit(g, n, regs)))
            if not ok:
                p.violate("format circuit constructor-raises", "Stabilizer(circuit) raised %s on [%s]" % (exc_name(s), fmt_gates(g)[:200]), case)
                continue
            check_object(p, s, state_of(g, n), n, "circuit", case, exact=False)
            if g:
                p.nontrivial(("circuit", n, tuple(g)))
            p.counters["format circuit"] += 1
        p.sample({"n": n, "circuit": fmt_gates(g)[:200]})
    return p


def finalize(total, tier, seed):
    from ..core import Inconclusive
    c = total.counters
    for f in ("str+", "str", "mat", "mat3", "circuit", "graph"):
        if not c["format " + f]:
            raise Inconclusive("format %s never exercised" % f)
    if not c["graph.to_circuit edgeless"]:
        raise Inconclusive("edgeless graphs never exercised")
    total.extra["ev_exhaustive_part"] = "all signed ordered generator pairs n=2; all groups x signs n=3; all graphs on 2..5 vertices"


def replay(cj):
    p = Partial()
    kind = cj.get("kind")
    if kind == "member":
        run_member(p, wp.case_from_json(cj))
    elif kind == "graph":
        p = work(("graphs", cj["n"], [cj["code"]]))
    elif kind == "circuit":
        from htstabilizer.stabilizer import Stabilizer
        g = [(nm, tuple(qs)) for nm, qs in cj["gates"]]
        ok, s = call(lambda: Stabilizer(ws.qiskit_circuit(g, cj["n"], cj.get("registers"))))
        if ok:
            check_object(p, s, state_of(g, cj["n"]), cj["n"], "circuit", cj, exact=False)
        else:
            p.violate("format circuit constructor-raises", "raised", cj)
    return p.violations
