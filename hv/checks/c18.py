"""C18 - GF(2) routines are correct for every binary matrix.

Monitors: icontract post-conditions (hv/monitor/contracts.py) on f2.rref / rank /
rref_and_basis_change / null_space / mat_mul, attached to the real functions; a dedicated workload
calls them on every binary matrix of every shape with m*n <= 12 and on random / structured matrices
up to 36x24 and 24x36 in several integer dtypes, and an in-situ workload runs the preparation
pipeline so the contracts also see the systems the library itself builds.
"""
import random

import numpy as np

from ..core import Partial, call, exc_name
from ..monitor import contracts
from ..oracle import conn as oconn, gf2, lcorbit
from ..workload import stabilizers as ws, pipeline as wp

PID = "C18"
ASSUMPTIONS = ["bit-int GF(2) oracle correct (self-tested against brute-force span / kernel enumeration)",
               "domain = 2-D integer arrays with entries 0/1 (dtype int8/int32/int64/uint8); bool and float arrays are not judged",
               "shapes above m*n = 12 are sampled"]
DTYPES = (np.int8, np.int64, np.uint8, np.int32)


def RULE(tier):
    return ("cases = one binary matrix handed to rref, rank, rref_and_basis_change and null_space: every matrix of every "
            "shape m x n with m*n <= 12 (incl. 0 x n and m x 0), plus %d random/structured matrices (zero, identity-padded, "
            "full column rank, duplicated rows, densities 0.1/0.5/0.9) at shapes up to 36x24 / 24x36 in 4 integer dtypes, plus "
            "the in-situ calls made by validate() and the layer search during pipeline executions; non-trivial = rank >= 1; "
            "distinct = distinct (shape, rows)" % (5000 if tier == "quick" else 60000))


def shapes_small():
    out = []
    for m in range(0, 13):
        for n in range(0, 13):
            if m * n <= 12 and (m or n):
                out.append((m, n))
    return out


def plan(tier, seed):
    t = []
    for (m, n) in shapes_small():
        tot = 1 << (m * n)
        for ch in wp.chunks(list(range(0, tot, 512)), 4 if tot >= 2048 else 1):
            t.append(("small", m, n, ch[0], min(tot, ch[-1] + 512)))
    cnt = 5000 if tier == "quick" else 60000
    for i in range(32):
        t.append(("random", cnt // 32, seed * 1000 + i))
    for i in range(16):
        t.append(("insitu", 12 if tier == "quick" else 120, seed * 1000 + i))
    for i in range(8):
        t.append(("inplace", 150 if tier == "quick" else 2500, seed * 1000 + i))
    for i in range(8):
        t.append(("reshape", 12 if tier == "quick" else 200, seed * 1000 + i))
    if tier == "thorough":
        t.append(("repo-tests",))
    random.Random(seed).shuffle(t)
    return t


def run_matrix(p, A, f2):
    """Call the four routines under the contracts; exceptions are violations (any binary matrix is valid input)."""
    case = {"shape": list(A.shape), "dtype": str(A.dtype), "rows": gf2.to_rows(A)}
    for name in ("rref", "rank", "rref_and_basis_change", "null_space"):
        p.evals += 1
        ok, r = call(getattr(f2, name), A)
        if not ok:
            p.violate("f2.%s raises %s" % (name, exc_name(r)), "f2.%s raised %s: %s on a %s %s matrix" % (name, exc_name(r), r, A.shape, A.dtype),
                      dict(case, fn=name))
    for v in contracts.take():
        p.violate(v["contract"] + " " + v["tag"], v["what"], dict(case, fn=v["contract"]))
    if A.size and A.any():
        p.nontrivial((A.shape, tuple(case["rows"])))


def work(task):
    if task[0] == "repo-tests":
        # the repository's own tests as one more workload, with the contracts attached
        p = Partial()
        r = contracts.run_repo_tests(('f2',), ['test_f2_algebra.py', 'test_find_local_clifford_layer.py', 'test_stabilizer.py', 'test_rotate_stabilizer_into_state.py'])
        if r is None:
            p.counters["repository tests under contracts: could not run"] += 1
            return p
        log, evals, status = r
        p.evals += sum(v for k, v in evals.items() if "out-of-domain" not in k)
        p.counters["repository tests under contracts: contract evaluations"] += sum(evals.values())
        for v in log:
            if v["contract"].startswith(('f2.',)):
                p.violate("under-repo-tests " + v["contract"] + " " + v.get("tag", ""), v["what"] + " (while running the repository's own tests)", dict(v.get("case") or {}, repo_tests=True))
        p.extra["contract_evals"] = __import__("collections").Counter({k: v for k, v in evals.items()})
        return p
    import htstabilizer.f2_algebra as f2
    contracts.install("htstabilizer")
    contracts.take()
    p = Partial()
    kind = task[0]
    if kind == "small":
        _, m, n, a, b = task
        for code in range(a, b):
            A = np.array([(code >> k) & 1 for k in range(m * n)], dtype=DTYPES[code % 4]).reshape(m, n)
            run_matrix(p, A, f2)
        p.counters["small-shape matrices"] += b - a
        if len(p.samples) < 1 and m * n >= 6:
            p.sample({"shape": [m, n], "rows": gf2.to_rows(A), "oracle rref": gf2.rref(gf2.to_rows(A), n)[0]})
    elif kind == "random":
        _, cnt, seed = task
        rng = np.random.default_rng(seed)
        shapes = [(36, 24), (24, 36), (16, 16), (12, 6), (6, 12), (7, 5), (5, 7), (24, 24), (3, 9), (20, 8), (1, 30), (30, 1), (13, 1), (2, 7)]
        for i in range(cnt):
            m, n = shapes[i % len(shapes)]
            mode = i % 7
            if mode == 0:
                A = np.zeros((m, n))
            elif mode == 1:
                A = np.zeros((m, n))
                k = min(m, n)
                A[:k, :k] = np.eye(k)
                A = A[rng.permutation(m)]
            elif mode == 2:                       # full column rank when m >= n (trivial kernel)
                A = (rng.random((m, n)) < 0.5).astype(int)
                if m >= n:
                    A[:n, :n] = np.triu(A[:n, :n], 1) + np.eye(n, dtype=int)
                    A = A[rng.permutation(m)]
            elif mode == 3:
                A = (rng.random((m, n)) < 0.5).astype(int)
                if m > 1:
                    A[rng.integers(m)] = A[rng.integers(m)]
            else:
                A = (rng.random((m, n)) < (0.1, 0.5, 0.9)[mode - 4]).astype(int)
            A = A.astype(DTYPES[i % 4])
            run_matrix(p, A, f2)
        p.counters["random/structured matrices"] += cnt
        p.sample({"shape": [m, n], "dtype": str(A.dtype), "rows": gf2.to_rows(A)[:6]})
    elif kind == "reshape":
        # the same bit string handed in under every shape m x n with m*n = L, consecutively (results that are remembered
        # under a key that forgets the shape - or confuse a matrix with its transpose - show up here)
        _, cnt, seed = task
        rng = np.random.default_rng(seed)
        for i in range(cnt):
            L = [12, 16, 24, 36, 64, 72, 72, 96, 144, 288][i % 10]
            bits = (rng.random(L) < (0.5, 0.15, 0.85)[i % 3]).astype(DTYPES[i % 4])
            shapes = [(m, L // m) for m in range(1, L + 1) if L % m == 0 and m <= 72 and L // m <= 72]
            order = list(rng.permutation(len(shapes)))
            for k in order + order[:2]:
                A = bits.reshape(shapes[k]).copy()
                run_matrix(p, A, f2)
                if i % 2:
                    run_matrix(p, np.ascontiguousarray(A.T), f2)
        p.counters["reshape families"] += cnt
        p.sample({"stratum": "one bit string under all shapes", "length": L, "shapes": [list(x) for x in shapes]})
    elif kind == "inplace":
        # one caller-owned array object, edited in place between calls (single bits, rows, whole contents): every answer
        # must belong to the contents at call time
        _, cnt, seed = task
        rng = np.random.default_rng(seed)
        for i in range(cnt):
            m, n = [(3, 3), (2, 3), (3, 2), (4, 6), (6, 4), (5, 5), (8, 12), (1, 4)][i % 8]
            A = (rng.random((m, n)) < 0.5).astype(DTYPES[i % 4])
            for step in range(5):
                fn = ("rref", "rank", "null_space", "rref_and_basis_change", "rank")[(i + step) % 5]
                p.evals += 1
                ok, r = call(getattr(f2, fn), A)
                if not ok:
                    p.violate("f2.%s raises %s" % (fn, exc_name(r)), "f2.%s raised %s after an in-place edit of the caller's matrix" % (fn, exc_name(r)),
                              {"shape": [m, n], "dtype": str(A.dtype), "rows": gf2.to_rows(A), "fn": fn})
                for v in contracts.take():
                    p.violate(v["contract"] + " " + v["tag"] + " (after in-place edit)", v["what"] + " - on a caller-owned array that was edited in place since the previous call",
                              {"shape": [m, n], "dtype": str(A.dtype), "rows": gf2.to_rows(A), "fn": v["contract"], "inplace": True})
                kind2 = int(rng.integers(4))
                if kind2 == 0:
                    A[int(rng.integers(m)), int(rng.integers(n))] ^= 1
                elif kind2 == 1:
                    A[int(rng.integers(m))] = (rng.random(n) < 0.5).astype(A.dtype)
                elif kind2 == 2:
                    A[:] = (rng.random((m, n)) < 0.5).astype(A.dtype)
                else:
                    A[:, int(rng.integers(n))] ^= 1
            p.nontrivial(("inplace", seed, i))
        p.counters["in-place edit sequences"] += cnt
        p.sample({"stratum": "one array edited in place between calls", "shape": [m, n], "final rows": gf2.to_rows(A)})
    else:
        from htstabilizer.stabilizer_circuits import get_preparation_circuit
        from htstabilizer.stabilizer import Stabilizer
        _, cnt, seed = task
        rnd = random.Random(seed)
        for i in range(cnt):
            n, conn = oconn.CONFIGS[rnd.randrange(len(oconn.CONFIGS))]
            label = rnd.choice(sorted(set(lcorbit.orbit_table(n))))
            m = ws.member(label, n, rnd)
            st = Stabilizer(ws.strings(m["gens"], n))
            call(st.validate)
            call(get_preparation_circuit, st, conn)
            p.counters["in-situ pipeline executions"] += 1
            for v in contracts.take():
                p.violate("in-situ " + v["contract"] + " " + v["tag"], v["what"] + " (inside the preparation pipeline)", dict(v["case"], fn=v["contract"], insitu=True))
        p.evals += cnt
    p.extra["contract_evals"] = +contracts.EVALS
    contracts.EVALS.clear()
    return p


def finalize(total, tier, seed):
    from ..core import Inconclusive
    ev = total.extra.pop("contract_evals", {})
    total.extra["ev_contract_evaluations"] = dict(ev)
    for k in ("rref", "rank", "rref_and_basis_change", "null_space", "mat_mul", "null_space trivial kernel"):
        if not ev.get(k):
            raise Inconclusive("contract on %s was never evaluated (a reference bound before decoration, or a renamed function)" % k)
    total.extra["ev_exhaustive_part"] = "every binary matrix of every shape with m*n <= 12"


def replay(cj):
    import htstabilizer.f2_algebra as f2
    contracts.install("htstabilizer")
    contracts.take()
    p = Partial()
    if cj.get("inplace"):
        return work(("inplace", 150, 1)).violations
    if cj.get("insitu"):
        return [{"key": "in-situ", "what": "in-situ witness; re-run the check"}] if work(("insitu", 40, 1)).violations else []
    m, n = cj["shape"]
    A = np.array([[(r >> j) & 1 for j in range(n)] for r in cj["rows"]], dtype=np.dtype(cj["dtype"])).reshape(m, n)
    run_matrix(p, A, f2)
    return p.violations
