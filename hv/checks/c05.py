"""C05 - delivered circuits use the minimum possible number of two-qubit gates.

The universal quantifier over competitor circuits is turned into a monitored competitor workload
that is exhaustive modulo symmetries which cannot change the count (DESIGN.md section 4 C05): any
competitor is L_k G_k ... L_1 G_1 L_0 |0..0> with G_i a CX/CZ on a coupled pair (= CZ up to local
Cliffords; a SWAP = 3 of them) and L_i local Clifford layers, so its intermediate states walk through
LC classes, and from a class with representative r the classes reachable with one more gate on (a,b)
are exactly class(CZ_ab (c_a x c_b) r) over the 6 x 6 local Cliffords modulo Paulis.  A breadth-first
search over this graph yields the minimum count per class *and an explicit witness circuit*.

Monitored executions of the real library: compress_preparation_circuit on every witness competitor,
get_preparation_circuit on the witness state and on random members of the class; delivered cost must
equal the BFS distance (never exceed any competitor).  Thorough tier adds random-walk competitors.
"""
import random

from ..core import Partial, call, exc_name
from ..oracle import conn as oconn, groups, lcorbit
from ..oracle.circ import cost_depth, connectivity_violations, fmt as fmt_gates
from ..oracle.pauli import conj_circuit, gates_of, state_of
from ..workload import stabilizers as ws

PID = "C05"
ASSUMPTIONS = [
    "every competitor circuit over single-qubit Cliffords + CX/CZ/SWAP on coupled pairs factors into CZ gates on coupled pairs interleaved with local Clifford layers (CX = H CZ H, SWAP = 3 CX)",
    "LC-orbit labels decide LC equivalence (self-tested against brute force for n<=4)",
    "the delivered cost of a class is observed on the BFS witness state and on sampled members (C04 establishes that it is class-invariant)",
]


def RULE(tier):
    return ("cases = (configuration, LC class): breadth-first search over the LC-class transition graph gives the optimum and a "
            "witness competitor circuit for each of the 5,962 pairs; the witness goes through compress_preparation_circuit and its "
            "state and 2 random members of the class through get_preparation_circuit"
            + ("; plus 20,000 random-walk competitor circuits (0..15 CZ/CX/SWAP on coupled pairs with random local Cliffords) per configuration" if tier == "thorough" else "")
            + "; non-trivial = entangled class; distinct = distinct (n, connectivity, class) resp. distinct competitor circuits")


def plan(tier, seed):
    t = [("bfs", n, c, seed) for (n, c) in sorted(oconn.CONFIGS, key=lambda nc: -nc[0])]
    if tier == "thorough":
        for (n, c) in oconn.CONFIGS:
            for i in range(4):
                t.append(("walk", n, c, 5000, seed * 100 + i))
    return t


def bfs(n, conn):
    """-> dist[label], circ[label] (witness gate list), gens[label] (signed state of the witness)."""
    start = [(0, 1 << i, 0) for i in range(n)]
    dist = {0: 0}
    circ = {0: []}
    st = {0: start}
    frontier = [0]
    edges = oconn.EDGES[(n, conn)]
    while frontier:
        nxt = []
        for A in frontier:
            gens = st[A]
            for (a, b) in edges:
                for la in lcorbit.LC1:
                    ga = [(nm, (a,)) for nm in la]
                    mid = [conj_circuit(p, ga) for p in gens] if ga else gens
                    for lb in lcorbit.LC1:
                        g = [(nm, (b,)) for nm in lb] + [("cz", (a, b))]
                        out = [conj_circuit(p, g) for p in mid]
                        B = lcorbit.orbit_label(out, n)
                        if B not in dist:
                            dist[B] = dist[A] + 1
                            circ[B] = circ[A] + ga + g
                            st[B] = out
                            nxt.append(B)
        frontier = nxt
    return dist, circ, st


def delivered_cost(fn, arg, conn, n, want_label=None):
    ok, qc = call(fn, arg, conn)
    if not ok:
        return None, "exc:" + exc_name(qc), None
    g = gates_of(qc)
    c, d = cost_depth(g, n)
    lab = None
    try:
        lab = lcorbit.orbit_label(state_of(g, n), n)
    except Exception:           # noqa: BLE001
        pass
    return c, g, lab


def work_bfs(task, p):
    """Round 1: the competitor side.  BFS over the LC-class transition graph of one configuration; every
    witness circuit is re-simulated and re-measured by the oracle before it is used as a competitor."""
    _, n, conn, seed = task
    dist, circ, st = bfs(n, conn)
    K = lcorbit.NUM_ORBITS[n]
    p.counters["classes reached by BFS %d-%s" % (n, conn)] = len(dist)
    if len(dist) != K:
        p.errors.append("BFS on %d-%s reached %d of %d classes" % (n, conn, len(dist), K))
        return
    p.extra.setdefault("maxdist", {})["%d-%s" % (n, conn)] = max(dist.values())
    out = {}
    for B in sorted(dist):
        w = circ[B]
        if connectivity_violations(w, oconn.edge_set(n, conn)) or cost_depth(w, n)[0] != dist[B] or lcorbit.orbit_label(state_of(w, n), n) != B:
            p.errors.append("witness of class %d on %d-%s inconsistent" % (B, n, conn))
            continue
        out[B] = (dist[B], w)
    p.extra.setdefault("bfs", {})[(n, conn)] = out
    p.evals += len(out)


def second_round(total, tier, seed):
    """Round 2: the delivered side.  For every class the real APIs are called on all configurations of
    that qubit count *in one process, consecutively*, sparse connectivities first and then dense ones
    (and the reverse for the random members), so a result that depends on what was requested before
    for another connectivity shows up as well."""
    bfs_data = total.extra.pop("bfs", {})
    tasks = []
    for n in range(2, 7):
        confs = [c for c in oconn.configs_for(n) if (n, c) in bfs_data]
        labels = sorted(set(lcorbit.orbit_table(n)))
        random.Random(seed + n).shuffle(labels)
        k = {2: 1, 3: 1, 4: 2, 5: 8, 6: 64}[n]
        size = (len(labels) + k - 1) // k
        for i in range(0, len(labels), size):
            ch = labels[i:i + size]
            payload = {c: {B: bfs_data[(n, c)][B] for B in ch if B in bfs_data[(n, c)]} for c in confs}
            payload["dist"] = {c: {B: v[0] for B, v in bfs_data[(n, c)].items()} for c in confs}
            tasks.append(("api", n, ch, payload, seed * 100 + i))
    return tasks


def judge_delivery(p, n, conn, B, opt, w, obs, cid, tcost):
    case = {"kind": "class", "n": n, "conn": conn, "orbit": B, "class_id": cid, "optimum": opt, "witness": [[nm, list(qs)] for nm, qs in w]}
    worst = None
    for api, c, g, lab in obs:
        if c is None:
            p.counters["api raised"] += 1
            continue
        if lab != B:
            p.counters["delivered circuit prepares another class (C01's business)"] += 1
            continue
        if connectivity_violations(g, oconn.edge_set(n, conn)):
            p.counters["delivered circuit violates the coupling graph (C02's business)"] += 1
            continue
        if c < opt:
            p.errors.append("oracle inconsistency: %s delivered class %d on %d-%s with %d two-qubit gates < BFS distance %d: [%s]"
                            % (api, B, n, conn, c, opt, fmt_gates(g)))
        elif c > opt and (worst is None or c > worst[1]):
            worst = (api, c, g)
    if worst:
        api, c, g = worst
        p.violate("suboptimal n=%d conn=%s class=%s delivered=%d optimum=%d" % (n, conn, cid, c, opt),
                  "class %s on %d-%s is delivered with %d two-qubit gates (table cost %s, %s -> [%s]) but the competitor [%s] prepares a "
                  "state of that class with %d" % (cid, n, conn, c, tcost, api, fmt_gates(g), fmt_gates(w), opt), case)
        p.counters["suboptimal %d-%s" % (n, conn)] += 1
    else:
        p.counters["optimal %d-%s" % (n, conn)] += 1


def refeed(p, n, conn, stab, rnd, dist):
    """A delivered circuit object, edited by the caller (single-qubit gates in front of or between its gates), is a
    competitor circuit like any other: compressing it must give the optimum of the state it now prepares."""
    from qiskit import QuantumCircuit
    from htstabilizer.stabilizer_circuits import get_preparation_circuit, compress_preparation_circuit
    from htstabilizer.lc_classes import determine_lc_class
    from htstabilizer.stabilizer import Stabilizer
    ok, delivered = call(get_preparation_circuit, stab, conn)
    if not ok:
        return
    pre = QuantumCircuit(n)
    for q in range(n):
        if rnd.random() < 0.6:
            getattr(pre, rnd.choice(["h", "s", "h", "sdg"]))(q)
    if rnd.random() < 0.7:
        edited = delivered.compose(pre, front=True)
    else:
        edited = delivered.copy()
        k = rnd.randrange(len(edited.data) + 1)
        for inst in reversed(pre.data):
            edited.data.insert(k, inst)
    g_in = gates_of(edited)
    try:
        lab_in = lcorbit.orbit_label(state_of(g_in, n), n)
    except Exception:           # noqa: BLE001
        return
    if connectivity_violations(g_in, oconn.edge_set(n, conn)):
        return
    cst, g, lab = delivered_cost(compress_preparation_circuit, edited, conn, n)
    p.evals += 1
    p.counters["re-fed delivered circuits (caller-edited) compressed"] += 1
    if cst is None or lab != lab_in or connectivity_violations(g, oconn.edge_set(n, conn)):
        return
    opt = dist.get(lab_in)
    if opt is not None and cst > opt:
        ok, cid = call(lambda: determine_lc_class(Stabilizer(ws.strings(state_of(g_in, n), n))).id())
        cid = cid if ok else "?"
        p.violate("suboptimal n=%d conn=%s class=%s delivered=%d optimum=%d" % (n, conn, cid, cst, opt),
                  "a delivered circuit edited by the caller [%s] (two-qubit cost %d) was compressed to %d two-qubit gates, but its state (class %s) "
                  "can be prepared with %d" % (fmt_gates(g_in)[:300], cost_depth(g_in, n)[0], cst, cid, opt),
                  {"kind": "walk", "n": n, "conn": conn, "gates": [[nm, list(qs)] for nm, qs in g_in]})
    elif opt is not None and cst < opt:
        p.errors.append("oracle inconsistency (refeed): %d < %d" % (cst, opt))


def work_api(task, p):
    from htstabilizer.stabilizer_circuits import get_preparation_circuit, compress_preparation_circuit
    from htstabilizer.stabilizer import Stabilizer
    from htstabilizer.lc_classes import determine_lc_class
    from htstabilizer import circuit_lookup
    _, n, labels, payload, seed = task
    rnd = random.Random("%s-%s" % (n, seed))
    orb = lcorbit.orbit_members(n)
    alldist = payload.pop("dist", {})
    confs = sorted(payload, key=lambda c: (len(oconn.EDGES[(n, c)]), c))         # sparse first
    for B in labels:
        obs = {c: [] for c in confs}
        meta = {}
        for c in confs:
            if B not in payload[c]:
                continue
            opt, w = payload[c][B]
            gens = state_of(w, n)
            ok, cid = call(lambda: determine_lc_class(Stabilizer(ws.strings(gens, n))).id())
            cid = cid if ok else "?"
            ok, tcost = call(lambda: circuit_lookup.stabilizer_circuit_lookup(n, c, cid).cost)
            meta[c] = (cid, tcost if ok else "?")
            cst, g, lab = delivered_cost(compress_preparation_circuit, ws.qiskit_circuit(w, n), c, n)
            obs[c].append(("compress(witness)", cst, g, lab))
            cst, g, lab = delivered_cost(get_preparation_circuit, Stabilizer(ws.strings(gens, n)), c, n)
            obs[c].append(("prepare(witness state)", cst, g, lab))
            if B and rnd.random() < 0.5 and c in alldist:
                refeed(p, n, c, Stabilizer(ws.strings(gens, n)), rnd, alldist[c])
        # the state given in plain graph form (a random graph of the orbit): as a Graph object and as strings X_v Z_N(v)
        from htstabilizer.graph import Graph
        import numpy as np
        code = rnd.choice(orb[B])
        rows = lcorbit.adj_rows(code, n)
        for c in confs:
            if B in payload[c]:
                if rnd.getrandbits(1):
                    arg = Stabilizer(Graph(np.array([[(rows[a] >> b) & 1 for b in range(n)] for a in range(n)], dtype=np.int8)))
                else:
                    arg = Stabilizer(ws.strings(lcorbit.graph_gens(code, n), n))
                cst, g, lab = delivered_cost(get_preparation_circuit, arg, c, n)
                obs[c].append(("prepare(graph form)", cst, g, lab))
        for _ in range(2):
            m = ws.member(B, n, rnd, orb[B])
            for c in reversed(confs):                                             # dense first
                if B in payload[c]:
                    cst, g, lab = delivered_cost(get_preparation_circuit, Stabilizer(ws.strings(m["gens"], n)), c, n)
                    obs[c].append(("prepare(random member)", cst, g, lab))
        for c in confs:
            if B not in payload[c]:
                continue
            opt, w = payload[c][B]
            p.evals += len(obs[c])
            if B:
                p.nontrivial((n, c, B))
            judge_delivery(p, n, c, B, opt, w, obs[c], meta[c][0], meta[c][1])
            p.counters["classes judged %d-%s" % (n, c)] += 1
            if len(p.samples) < 1 and opt >= 3:
                p.sample({"n": n, "connectivity": c, "class id": meta[c][0], "optimum (BFS distance)": opt, "witness competitor": fmt_gates(w),
                          "delivered": [[api, cst] for api, cst, g, lab in obs[c]]})


def random_walk(n, conn, rnd):
    edges = oconn.EDGES[(n, conn)]
    k = rnd.randrange(0, 16)
    g = []
    cost = 0
    for q in range(n):
        g += [(nm, (q,)) for nm in lcorbit.LC24[rnd.randrange(24)]]
    while True:
        a, b = rnd.choice(edges)
        if rnd.getrandbits(1):
            a, b = b, a
        nm = rnd.choice(["cz", "cz", "cx", "cx", "swap"])
        w = 3 if nm == "swap" else 1
        if cost + w > k:
            break
        g.append((nm, (a, b)))
        cost += w
        for q in (a, b):
            g += [(x, (q,)) for x in lcorbit.LC24[rnd.randrange(24)]]
    return g, cost


def work_walk(task, p):
    from htstabilizer.stabilizer_circuits import compress_preparation_circuit
    _, n, conn, cnt, seed = task
    rnd = random.Random("%s-%s-%s" % (n, conn, seed))
    for i in range(cnt):
        g, cost = random_walk(n, conn, rnd)
        p.evals += 1
        c, og, lab = delivered_cost(compress_preparation_circuit, ws.qiskit_circuit(g, n), conn, n)
        if c is None:
            p.counters["api raised"] += 1
            continue
        want = lcorbit.orbit_label(state_of(g, n), n)
        if lab != want:
            p.counters["delivered circuit prepares another class (C01's business)"] += 1
            continue
        if want:
            p.nontrivial((n, conn, tuple(g)))
        p.counters["competitor cost - delivered cost = %d" % min(cost - c, 3)] += 1
        if c > cost:
            from htstabilizer.stabilizer import Stabilizer
            from htstabilizer.lc_classes import determine_lc_class
            ok, cid = call(lambda: determine_lc_class(Stabilizer(ws.strings(state_of(g, n), n))).id())
            p.violate("suboptimal-vs-random-competitor n=%d conn=%s class=%s delivered=%d competitor=%d" % (n, conn, cid if ok else "?", c, cost),
                      "random-walk competitor [%s] needs %d two-qubit gates, delivered circuit %d" % (fmt_gates(g), cost, c),
                      {"kind": "walk", "n": n, "conn": conn, "gates": [[nm, list(qs)] for nm, qs in g]})
    p.sample({"random-walk competitor": fmt_gates(g)[:200], "two-qubit cost": cost, "connectivity": "%d-%s" % (n, conn)})


def work(task):
    p = Partial()
    p.max_viol = 5000
    if task[0] == "bfs":
        work_bfs(task, p)
    elif task[0] == "api":
        work_api(task, p)
    else:
        work_walk(task, p)
    return p


def finalize(total, tier, seed):
    from ..core import Inconclusive
    reached = sum(v for k, v in total.counters.items() if k.startswith("classes judged"))
    total.extra["ev_config_class_pairs"] = reached
    total.extra["ev_max_optimum_per_configuration"] = total.extra.pop("maxdist", {})
    total.extra["exhaustive"] = True
    total.extra["ev_exhaustive_part"] = "all 5,962 (configuration, class) pairs; competitors exhaustively modulo local Cliffords via BFS"
    # a known finding whose numbers changed is a *different* violation: nothing to do here, keys carry the numbers
    if reached != 5962:
        raise Inconclusive("only %d of 5962 (configuration, class) pairs decided" % reached)


def replay(cj):
    from htstabilizer.stabilizer_circuits import compress_preparation_circuit
    n, conn = cj["n"], cj["conn"]
    g = [(nm, tuple(qs)) for nm, qs in (cj.get("witness") or cj.get("gates"))]
    if connectivity_violations(g, oconn.edge_set(n, conn)):
        return []
    cost = cost_depth(g, n)[0]
    c, og, lab = delivered_cost(compress_preparation_circuit, ws.qiskit_circuit(g, n), conn, n)
    if c is not None and lab == lcorbit.orbit_label(state_of(g, n), n) and c > cost:
        return [{"key": "suboptimal", "what": "competitor [%s] costs %d, delivered %d" % (fmt_gates(g), cost, c)}]
    return []
