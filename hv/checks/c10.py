"""C10 - full-state tomography reconstructs every state exactly from exact statistics.

Monitor: full_state_tomography_circuits(prep, conn) -> the oracle computes the exact outcome
distribution of every returned circuit -> the real FullStateTomographyFitter is fed through a
duck-typed result -> expectation_values() / density_matrix() are compared with Tr(rho P) / rho.

Continuum -> finite: the fitter's estimate of each Pauli is linear in the (normalised) counts and the
counts are linear in rho, so exactness on the 4^n linearly independent states (I + P_k)/2^n implies
exactness for every density matrix.  These basis states go through the real fitter in one pass as
integer count *vectors*; linearity of the real code path is itself monitored (scalar counts on random
convex combinations and on rescaled counts agree with the vector run to 1e-12).
"""
import random

import numpy as np

from ..core import Partial, call, exc_name
from ..oracle import conn as oconn, dense
from ..workload import tomo

PID = "C10"
ASSUMPTIONS = [
    "exact outcome distributions are computed by the oracle (tableau for the operator basis, dense simulator for random states)",
    "the fitter is linear in the count vector (monitored on random convex combinations and rescalings in the same run)",
    "preparation circuits carry no classical bits (documented limitation: keys would contain extra registers)",
]
TOL = 1e-9


def RULE(tier):
    return ("cases = (state, configuration): for each of the 20 configurations the complete operator basis of 4^n states "
            "(I+P_k)/2^n (exhaustive spanning set, exact integer arithmetic), %s dense states (Haar pure, rank-2, full rank, "
            "stabilizer, product, basis, maximally mixed; prepared by initial-state substitution and by actual circuits over "
            "{h,s,t,x,cx,cz,ry}) and linearity probes; non-trivial = state other than the maximally mixed one; distinct = "
            "distinct (n, connectivity, state)" % ("6 (n<=5) / 3 (n=6)" if tier == "quick" else "100"))


def plan(tier, seed):
    t = []
    for (n, c) in sorted(oconn.CONFIGS, key=lambda x: -x[0]):
        t.append(("basis", n, c, seed, 0))
        if n <= 4 or tier == "thorough":
            t.append(("basis", n, c, seed, 1))
        k = (6 if n <= 5 else 3) if tier == "quick" else 100
        step = 3 if n == 6 else 10
        for i in range(0, k, step):
            t.append(("dense", n, c, min(step, k - i), seed * 100 + i))
    return t


def circuits_for(n, conn, prep=None, user_metadata=False, layout=None):
    """user_metadata: the caller's preparation circuit carries its own (non-empty) metadata - legal, and it
    must neither disturb the readout information nor be modified."""
    from qiskit import QuantumCircuit
    from htstabilizer.tomography import full_state_tomography_circuits
    if prep is None:
        prep = QuantumCircuit(n)
    if user_metadata:
        prep.metadata = {"experiment": "tomography-%d" % n, "shots": 4096}
    ok, circs = call(full_state_tomography_circuits, prep, conn, layout) if layout is not None else call(full_state_tomography_circuits, prep, conn)
    if ok and user_metadata and prep.metadata != {"experiment": "tomography-%d" % n, "shots": 4096}:
        return False, RuntimeError("the caller's preparation circuit's metadata was modified: %r" % (sorted(prep.metadata),))
    return ok, circs


def work_basis(task, p):
    from htstabilizer.tomography import FullStateTomographyFitter
    n, conn, seed = task[1], task[2], task[3]
    case = {"kind": "basis", "n": n, "conn": conn}
    key = "tomography n=%d conn=%s " % (n, conn)
    user_md = bool(task[4]) if len(task) > 4 else False
    case["user_metadata"] = user_md
    p.counters["basis pass, preparation circuit %s user metadata" % ("with" if user_md else "without")] += 1
    ok, circs = circuits_for(n, conn, user_metadata=user_md)
    if not ok:
        p.evals += 1
        p.violate(key + "circuits-raise", "full_state_tomography_circuits raised %s: %s" % (exc_name(circs), str(circs)[:160]), case)
        return
    K = 4 ** n
    counts = [tomo.basis_counts(c, n) for c in circs]
    if user_md or n <= 3:
        # every circuit with its own number of shots (legal: each circuit is normalised by its own total)
        counts = [{k: v * ((3 * i) % 7 + 1) for k, v in cd.items()} for i, cd in enumerate(counts)]
        p.counters["basis pass with a different number of shots per circuit"] += 1
    ok, ev = call(lambda: FullStateTomographyFitter(tomo.FakeResult(counts), circs).expectation_values())
    p.evals += K
    p.distinct_count += K - 1
    if not ok:
        p.violate(key + "fitter-raises", "expectation_values raised %s: %s" % (exc_name(ev), str(ev)[:200]), case)
        return
    seen = {}
    bad = []
    for P, v in ev.items():
        x, z, ph = tomo.pauli_key(P)
        k = tomo.basis_index(x, z, n)
        if ph != 0:
            bad.append("key %s carries phase %d" % (P, ph))
        if k in seen:
            bad.append("Pauli reported twice: %s" % P)
        seen[k] = True
        want = np.zeros(K)
        if k == 0:
            want[:] = 1
        else:
            want[k] = 1
            want[0] = 0
        got = np.broadcast_to(np.asarray(v, dtype=float), (K,))
        if not np.allclose(got, want, rtol=0, atol=1e-9):
            j = int(np.argmax(np.abs(got - want)))
            bad.append("for the state (I+P_%d)/2^n the fitter reports <%s> = %s, exact value %s" % (j, P.to_label()[::-1], got[j], want[j]))
        p.counters["pauli x basis-state values compared"] += K
    if len(seen) != K:
        bad.append("%d of %d Paulis reported" % (len(seen), K))
    if bad:
        # confirm through the plain public path: scalar counts of the single offending basis state
        p.violate(key + "operator-basis", "; ".join(bad[:3]), case)
    # linearity probes of the real code path: scalar counts on random mixtures and rescaled counts
    rng = np.random.default_rng(seed + n)
    for probe in range(3 if n <= 5 else 2):
        w = rng.random(K)
        w[0] += 1.0
        w /= w.sum()
        shots = [1.0, 1000.0, 1e-3][probe]
        sc = [{k: float(np.dot(v.astype(float), w)) * shots * (1 + (ci % 5) * (probe % 2)) for k, v in cd.items()} for ci, cd in enumerate(counts)]
        ok, ev2 = call(lambda: FullStateTomographyFitter(tomo.FakeResult(sc), circs).expectation_values())
        p.evals += 1
        if not ok:
            p.violate(key + "fitter-raises", "expectation_values raised %s on scalar counts" % exc_name(ev2), case)
            continue
        tot = 1.0 + float(w[0])     # column 0 is (I+I)/2^n, which has trace 2
        worst = 0.0
        for P, v in ev2.items():
            x, z, ph = tomo.pauli_key(P)
            k = tomo.basis_index(x, z, n)
            # the mixture sum_j w_j (I+P_j)/2^n has trace `tot` and <P_k> = w_k / tot for k != 0
            want = 1.0 if k == 0 else w[k] / tot
            worst = max(worst, abs(float(v) - want))
        p.counters["linearity probes"] += 1
        if worst > 1e-12:
            p.violate(key + "nonlinear", "scalar-count run on a random mixture of basis states (scale %g) deviates by %.3g from linearity" % (shots, worst), case)
    if len(p.samples) < 1:
        p.sample({"n": n, "connectivity": conn, "circuits": len(circs), "basis states": K, "paulis reported": len(seen)})


def work_dense(task, p):
    from htstabilizer.tomography import FullStateTomographyFitter
    _, n, conn, cnt, seed = task
    rng = np.random.default_rng(seed + 7 * n)
    rnd = random.Random(seed + n)
    for i in range(cnt):
        kind = tomo.STATE_KINDS[(i + seed) % len(tomo.STATE_KINDS)]
        via_circuit = (i % 3 == 2)
        case = {"kind": "dense", "n": n, "conn": conn, "seed": seed, "index": i}
        key = "tomography n=%d conn=%s " % (n, conn)
        if via_circuit:
            g = tomo.rand_prep_gates(n, rnd.choice([3, 8, 20]), rnd)
            psi = dense.statevector(g, n)
            rho = np.outer(psi, psi.conj())
            prep = tomo.qiskit_prep(g, n)
            init = np.zeros((2 ** n, 2 ** n), dtype=complex)
            init[0, 0] = 1
            kind = "circuit-prepared"
        else:
            rho = tomo.rand_state(n, rng, kind)
            prep = None
            init = rho
            if i % 4 == 3:
                from ..workload import stabilizers as ws
                prep = ws.qiskit_circuit([], n, ws.random_registers(n, rnd))      # the register made of several QuantumRegisters
                p.counters["preparation circuits on several quantum registers"] += 1
        layout = None
        if i % 5 == 4 or (n <= 3 and i % 2 == 0):
            layout = list(range(n))
            rnd.shuffle(layout)             # every qubit measured, in the order the caller lays the chain / star ... out on the device
            p.counters["all qubits measured in a permuted order"] += 1
        ok, circs = circuits_for(n, conn, prep, user_metadata=(i % 2 == 1), layout=layout)
        p.evals += 1
        if not ok:
            p.violate(key + "circuits-raise", "full_state_tomography_circuits raised %s: %s" % (exc_name(circs), str(circs)[:160]), case)
            continue
        counts = [tomo.dense_counts(c, init, n, shots=(None, 4096, 1000 + 37 * ci)[i % 3]) for ci, c in enumerate(circs)]
        f = FullStateTomographyFitter(tomo.FakeResult(counts), circs)
        if n <= 4:
            call(f.expectation_values)      # one fitter object asked more than once
            call(f.density_matrix, False)
        ok, dm = call(f.density_matrix)
        if not ok:
            p.violate(key + "fitter-raises", "density_matrix raised %s: %s" % (exc_name(dm), str(dm)[:200]), case)
            continue
        err = float(np.abs(np.asarray(dm) - rho).max())                     # full-register mode: the register's own frame
        if layout is not None:
            ok2, dm_red = call(f.density_matrix, False)
            if ok2:                                                           # reduced mode: qubit layout[i] is qubit i of the matrix
                err = max(err, float(np.abs(np.asarray(dm_red) - dense.ptrace(rho, layout, n)).max()))
            else:
                err = 1.0
        p.counters["state kind " + kind] += 1
        if kind != "mixed":
            p.nontrivial((n, conn, kind, seed, i))
        if err > TOL:
            ok, ev = call(f.expectation_values)
            detail = ""
            if ok:
                worst = max(((abs(float(v) - float(np.real(np.trace(rho @ dense.pauli_mat(*tomo.pauli_key(P)[:2], n))))), P) for P, v in ev.items()), key=lambda t: t[0]) if layout is None else (err, next(iter(ev)))
                detail = "; worst Pauli %s off by %.3g" % (worst[1].to_label()[::-1], worst[0])
            p.violate(key + "density-matrix", "reconstructed density matrix of a %s state differs from the true one by %.3g (max entry)%s" % (kind, err, detail), case)
        if len(p.samples) < 1:
            p.sample({"n": n, "connectivity": conn, "state": kind, "max abs error": err})


def work(task):
    p = Partial()
    if task[0] == "basis":
        work_basis(task, p)
    else:
        work_dense(task, p)
    return p


def finalize(total, tier, seed):
    from ..core import Inconclusive
    if total.counters["linearity probes"] < 40 and not total.violations:
        raise Inconclusive("linearity of the fitter was probed only %d times" % total.counters["linearity probes"])
    total.extra["ev_exhaustive_part"] = "complete operator basis (4^n states) for all 20 configurations => all density matrices by monitored linearity"


def replay(cj):
    p = Partial()
    if cj["kind"] == "basis":
        work_basis(("basis", cj["n"], cj["conn"], 0, int(bool(cj.get("user_metadata")))), p)
    else:
        work_dense(("dense", cj["n"], cj["conn"], cj["index"] + 1, cj["seed"]), p)
    return p.violations
