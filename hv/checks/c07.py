"""C07 - circuit compression preserves the prepared state for every Clifford circuit.

Monitor on compress_preparation_circuit(circuit, connectivity): instruction list of the input before
and after the call, instruction list of the output; oracle = signed tableau (same signed group),
coupling graph, cost = metadata cost of the state's class (and constant per oracle orbit), input
object untouched.
"""
import random

from ..core import Partial, call, exc_name, Retained
from ..oracle import conn as oconn, groups, lcorbit
from ..oracle.circ import cost_depth, connectivity_violations, fmt as fmt_gates
from ..oracle.pauli import gates_of, state_of, to_str, UnknownGate
from ..workload import pipeline as wp, stabilizers as ws

PID = "C07"
ASSUMPTIONS = ["input circuits are sampled (the domain is unbounded); lengths 0..2000",
               "metadata cost of a class is read through the library's own classifier and lookup (their correctness is C06/C17)"]
LENGTHS = (0, 1, 2, 5, 20, 100, 500, 2000)
MIXES = ("uniform", "single", "two", "swapchain", "idpad", "yheavy", "redundant", "subset")


def RULE(tier):
    return ("cases = (circuit over {id,x,y,z,h,s,sdg,cx,cz,swap}, connectivity): %d random circuits spread over all 20 "
            "configurations, lengths %s, gate mixes %s (two-qubit gates on arbitrary, also uncoupled, pairs); plus a circuit "
            "preparing a random member of every one of the 5,962 (configuration, class) pairs (dressed with redundant pairs) and "
            "cheap inputs with 1-3 two-qubit gates on uncoupled pairs (GHZ fan-outs, long-range Bell pairs), each also re-requested "
            "with another Pauli frame; every returned circuit is re-inspected at the end of the task (retention monitor); "
            "non-trivial = entangled output state; distinct = distinct (n, connectivity, gate list)" % (3200 if tier == "quick" else 100000, LENGTHS, MIXES))


def plan(tier, seed):
    cnt = 3200 if tier == "quick" else 100000
    per = cnt // (20 * 4)
    t = []
    for (n, c) in oconn.CONFIGS:
        for i in range(4):
            t.append(("compress", n, c, per, seed * 1000 + i))
        t.append(("cheap", n, c, 40 if tier == "quick" else 600, seed * 1000 + 7))
    # class-stratified inputs: a circuit preparing a random member of every (configuration, class) pair
    for n, reps, k in ((2, 4, 1), (3, 4, 1), (4, 3, 2), (5, 1 if tier == "quick" else 6, 8), (6, 1 if tier == "quick" else 4, 48)):
        t += [("classes",) + x[1:] for x in wp.member_tasks(n, reps, k, seed)]
    for n, k, fr in ((2, 1, 1.0), (3, 1, 1.0), (4, 2, 1.0), (5, 6, 1.0), (6, 24, 0.34 if tier == "quick" else 1.0)):
        t += [("tablereps-c",) + x[1:] for x in wp.tablerep_tasks(n, k, seed, fr)]
    random.Random(seed).shuffle(t)
    return t


def refeed_sequence(p, n, conn, rnd, table, retain):
    """The library's own outputs fed back in after caller edits: a delivered circuit object (with whatever
    attributes the library attached to it) gets single-qubit gates in front of / between its gates and is
    compressed again; the answer must fit the *edited* circuit."""
    from qiskit import QuantumCircuit
    from htstabilizer.stabilizer_circuits import get_preparation_circuit, compress_preparation_circuit
    from htstabilizer.stabilizer import Stabilizer
    label = rnd.choice(sorted(set(lcorbit.orbit_table(n))))
    m = ws.member(label, n, rnd)
    ok, delivered = call(lambda: get_preparation_circuit(Stabilizer(ws.strings(m["gens"], n)), conn) if rnd.getrandbits(1)
                         else compress_preparation_circuit(ws.qiskit_circuit(m["circuit"], n), conn))
    if not ok:
        return
    for step in range(3):
        pre = QuantumCircuit(n)
        for q in range(n):
            if rnd.random() < 0.5:
                getattr(pre, rnd.choice(["h", "s", "sdg", "h"]))(q)
        how = rnd.choice(["front", "front", "middle", "back"])
        if how == "front":
            edited = delivered.compose(pre, front=True)
        elif how == "back":
            edited = delivered.compose(pre)
        else:
            edited = delivered.copy()
            k = rnd.randrange(len(edited.data) + 1)
            for inst in reversed(pre.data):
                edited.data.insert(k, inst)
        g = [(nm, qs) for nm, qs in gates_of(edited)]
        if any(nm not in ("id", "x", "y", "z", "h", "s", "sdg", "cx", "cz", "swap") for nm, qs in g):
            return
        keep_md = edited.metadata
        run_case(p, n, conn, g, table, retain, "re-fed delivered circuit (%s)" % how, qc_obj=edited, keep_attrs=True)
        ok, delivered = call(compress_preparation_circuit, edited, conn)
        if not ok:
            return


def reused_object_sequence(p, n, conn, rnd, table, retain):
    """One QuantumCircuit object passed several times, edited in place by the caller between the calls (also by
    edits that keep the number of instructions): every answer must belong to the contents at call time."""
    g = ws.random_gates(n, rnd.choice([4, 9, 25]), rnd, "uniform")
    qc = ws.qiskit_circuit(g, n)
    for step in range(4):
        run_case(p, n, conn, list(g), table, retain, "reused-object", qc_obj=qc)
        kind = rnd.choice(["replace-last", "replace-mid", "rebuild-same-length", "append"])
        if not g:
            kind = "append"
        if kind == "replace-last":
            qc.data.pop()
            g = g[:-1]
            new = ws.random_gates(n, 1, rnd, "uniform")[0]
        elif kind == "replace-mid":
            k = rnd.randrange(len(g))
            new = None
            g2 = g[:k] + ws.random_gates(n, 1, rnd, "uniform") + g[k + 1:]
            fresh = ws.qiskit_circuit(g2, n)
            qc.data[k] = fresh.data[k]
            g = g2
        elif kind == "rebuild-same-length":
            g = ws.random_gates(n, len(g), rnd, "uniform")
            qc.clear()
            new = None
            for nm, qs in g:
                getattr(qc, "id" if nm in ("id", "i") else nm)(*qs)
        else:
            new = ws.random_gates(n, 1, rnd, "uniform")[0]
        if kind in ("replace-last", "append"):
            getattr(qc, "id" if new[0] in ("id", "i") else new[0])(*new[1])
            g = g + [new]
        p.counters["in-place caller edit: " + kind] += 1
    run_case(p, n, conn, list(g), table, retain, "reused-object", qc_obj=qc)


def run_case(p, n, conn, g, table=None, retain=None, stratum="random", qc_obj=None, keep_attrs=False):
    from htstabilizer.stabilizer_circuits import compress_preparation_circuit
    from htstabilizer.stabilizer import Stabilizer
    from htstabilizer.lc_classes import determine_lc_class
    from htstabilizer import circuit_lookup
    case = {"n": n, "conn": conn, "gates": [[nm, list(qs)] for nm, qs in g]}
    p.evals += 1
    regs = None
    if qc_obj is None and len(g) % 5 == 2:
        import random as _r
        regs = ws.random_registers(n, _r.Random(len(g) * 31 + n))
        case["registers"] = regs
        p.counters["inputs on several quantum registers"] += 1
    qc = qc_obj if qc_obj is not None else ws.qiskit_circuit(g, n, regs)
    if not keep_attrs:
        qc.name = "input-circuit"
        qc.metadata = {"tag": 7}
    name0, md0 = qc.name, (dict(qc.metadata) if isinstance(qc.metadata, dict) else qc.metadata)
    before = gates_of(qc)
    if [(("id" if nm == "i" else nm), qs) for nm, qs in g] != before:
        p.errors.append("harness: reused circuit object out of sync with its gate list")
        return
    ok, out = call(compress_preparation_circuit, qc, conn)
    key = "compress n=%d conn=%s " % (n, conn)
    if not ok:
        p.violate(key + "raises", "compress_preparation_circuit raised %s (%s) on [%s]" % (exc_name(out), str(out)[:100], fmt_gates(g)[:300]), case)
        return
    if gates_of(qc) != before or qc.num_qubits != n or qc.name != name0 or qc.metadata != md0:
        p.violate(key + "input-modified", "the input circuit object was modified by compress_preparation_circuit", case)
    og = gates_of(out)
    if retain is not None:
        retain.add(out, {"case": dict(case, retention=True), "requested": "input [%s]" % fmt_gates(g)[:120]})
    p.counters["stratum " + stratum] += 1
    try:
        got = groups.canon(state_of(og, n), n)
    except UnknownGate:
        p.counters["unknown-gate outputs"] += 1
        return
    want_gens = state_of(before, n)
    want = groups.canon(want_gens, n)
    if got != want:
        p.violate(key + "state-changed", "input [%s] prepares %s, compressed [%s] prepares %s"
                  % (fmt_gates(g)[:300], [to_str(x, n) for x in want], fmt_gates(og), [to_str(x, n) for x in (got or [])]), case)
    if connectivity_violations(og, oconn.edge_set(n, conn)):
        p.violate(key + "connectivity", "compressed circuit [%s] violates %d-%s" % (fmt_gates(og), n, conn), case)
    c, d = cost_depth(og, n)
    lab = lcorbit.orbit_label(want_gens, n)
    ok, meta = call(lambda: circuit_lookup.stabilizer_circuit_lookup(
        n, conn, determine_lc_class(Stabilizer(ws.strings(want_gens, n))).id()).cost)
    if ok and c != meta:
        p.violate(key + "cost-not-class-cost", "compressed circuit has %d two-qubit gates, the class of its state costs %d (input length %d)"
                  % (c, meta, len(g)), case)
    if table is not None:
        table.setdefault((n, conn, lab), {}).setdefault(c, case)
    p.counters["length %d" % len(g)] += 1
    if lab:
        p.nontrivial((n, conn, tuple(g)))
    p.counters["input two-qubit cost > output cost" if cost_depth(g, n)[0] > c else "input cost <= output cost"] += 1


def work(task):
    from .c01 import digest_circuit, retention_verdicts
    p = Partial()
    table = p.extra.setdefault("table", {})
    retain = Retained(digest_circuit, 500)
    if task[0] == "tablereps-c":
        from htstabilizer.stabilizer_circuits import compress_preparation_circuit
        for case in wp.iter_cases(("tablereps",) + task[1:]):
            n, conn = case["n"], case["conn"]
            g = list(case["circuit"])
            run_case(p, n, conn, g, table, retain, "table-representative")
            # the caller goes on building on a compressed circuit it received (appends gates); later answers must not care
            ok, out = call(compress_preparation_circuit, ws.qiskit_circuit(g, n), conn)
            if ok:
                call(out.h, 0)
                call(out.cx, 0, n - 1)
            p.extra.setdefault("labels", set()).add((n, conn, case["label"]))
        p.sample({"stratum": "table representatives", "n": n, "connectivity": conn, "input": fmt_gates(g)[:120]})
    elif task[0] == "classes":
        rnd = random.Random(repr(task[-2:]))
        for case in wp.iter_cases(("members",) + task[1:]):
            n, conn = case["n"], case["conn"]
            g = list(case["circuit"])
            # dress the synthesised circuit with redundant pairs so it is not in any normal form
            for _ in range(rnd.randrange(0, 4)):
                a, b = rnd.sample(range(n), 2)
                k = rnd.randrange(len(g) + 1)
                g[k:k] = [("cx", (a, b)), ("cx", (a, b))] if rnd.getrandbits(1) else [("h", (a,)), ("h", (a,))]
            run_case(p, n, conn, g, table, retain, "class-stratified")
            p.extra.setdefault("labels", set()).add((n, conn, case["label"]))
        p.sample({"n": n, "connectivity": conn, "input": fmt_gates(g)[:160], "stratum": "class-stratified"})
    else:
        kind, n, conn, cnt, seed = task
        rnd = random.Random("%s-%s-%s-%s" % (kind, n, conn, seed))
        for i in range(cnt):
            if kind == "cheap" and i % 4 == 3:
                reused_object_sequence(p, n, conn, rnd, table, retain)
                continue
            if kind == "cheap" and i % 4 == 1:
                refeed_sequence(p, n, conn, rnd, table, retain)
                continue
            if kind == "cheap":
                g = ws.cheap_uncoupled(n, rnd)
                # the same state twice in a row with different Pauli frames (history effects on cached objects)
                run_case(p, n, conn, g, table, retain, "cheap-uncoupled")
                g = g + [(rnd.choice(["x", "z", "y"]), (rnd.randrange(n),))]
                run_case(p, n, conn, g, table, retain, "cheap-uncoupled")
                continue
            L = LENGTHS[i % len(LENGTHS)]
            if L == 2000 and i % 3:
                L = 500
            g = ws.random_gates(n, L, rnd, MIXES[(i // len(LENGTHS)) % len(MIXES)])
            run_case(p, n, conn, g, table, retain)
        p.sample({"n": n, "connectivity": conn, "input": fmt_gates(g)[:160], "length": len(g), "stratum": kind})
    retention_verdicts(p, retain, "compress")
    return p


def merge_extra(a, b):
    a.setdefault("labels", set()).update(b.get("labels", set()))
    ta = a.setdefault("table", {})
    for k, slot in b.get("table", {}).items():
        s = ta.setdefault(k, {})
        for kk, v in slot.items():
            s.setdefault(kk, v)


def finalize(total, tier, seed):
    from ..core import Inconclusive
    table = total.extra.pop("table", {})
    for (n, conn, lab), slot in sorted(table.items()):
        if len(slot) > 1:
            costs = sorted(slot)
            total.violate("compress cost-not-class-invariant n=%d conn=%s" % (n, conn),
                          "states of one LC class (orbit %d) were compressed to circuits with different two-qubit counts %s" % (lab, costs),
                          slot[costs[-1]])
    total.extra["ev_orbits_seen"] = len(table)
    want = {(n, c, l) for (n, c) in oconn.CONFIGS for l in set(lcorbit.orbit_table(n))}
    seen = total.extra.pop("labels", set())
    total.extra["ev_config_class_pairs_seen"] = len(seen & want)
    if want - seen and not total.violations:
        raise Inconclusive("%d (configuration, class) pairs never compressed" % len(want - seen))
    if total.counters["unknown-gate outputs"] > max(1, total.evals // 1000):
        raise Inconclusive("outputs use gates the oracle cannot conjugate")
    if len({k[:2] for k in table}) < 20 and not total.violations:
        raise Inconclusive("not all 20 configurations observed")


def replay(cj):
    from .c01 import digest_circuit, retention_verdicts
    p = Partial()
    g = [(nm, tuple(qs)) for nm, qs in cj["gates"]]
    retain = Retained(digest_circuit, 10)
    run_case(p, cj["n"], cj["conn"], g, retain=retain)
    if cj.get("retention"):
        for pauli in ("x", "z", "y"):
            run_case(p, cj["n"], cj["conn"], g + [(pauli, (0,))], retain=retain)
        retention_verdicts(p, retain, "compress")
    return p.violations
