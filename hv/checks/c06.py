"""C06 - the class id is a complete invariant of local-Clifford equivalence.

Monitor: determine_lc_class(s).id() is observed for every presented group; over the whole run the
relation {(library id, oracle orbit label)} must be a bijection onto 0..K-1, invariant under the
choice of generators and signs; LCClassN(id) round-trips and its representative graph lies in the
orbit attached to that id.
"""
import random

import numpy as np

from ..core import Partial, call, exc_name
from ..oracle import groups, lcorbit
from ..oracle.pauli import to_str
from ..workload import pipeline as wp, stabilizers as ws

PID = "C06"
ASSUMPTIONS = [
    "oracle orbit labels decide LC equivalence (Van den Nest-Dehaene-De Moor theorem; label cross-checked against brute force over all 6^n local Clifford layers for n<=4 in the self-test)",
    "the choice of generating set is sampled (one random GL(n,2) recombination with random signs per group in the exhaustive part, 10% at n=6)",
]


def RULE(tier):
    if tier == "quick":
        return ("all 78,180 stabilizer groups of n=2..5 (canonical generators and one random re-presentation each), all "
                "32,768 six-vertex graph states, 25 random members of each of the 760 six-qubit orbits, same-object call sequences "
                "(id, str, ==, get_graph, id) and request sequences around anchors (tableau neighbours, generator siblings); non-trivial = "
                "entangled (label != 0); distinct: enumerated groups are distinct by construction, sampled members are "
                "counted by canonical group")
    return ("all stabilizer groups of n=2..6 (4,922,775 at n=6) in canonical generators, plus a random re-presentation "
            "(GL(n,2) recombination, random signs) for every group n<=5 and 10% of n=6; non-trivial = entangled; "
            "distinct by construction of the enumeration")


def plan(tier, seed):
    t = [("classes", n) for n in range(2, 7)]
    t += [("sameobject", 150 if tier == "quick" else 1500, seed * 100 + i) for i in range(8)]
    for n in (2, 3, 4):
        t.append(("enum", n, groups.group_tasks(n), 1.0, seed))
    sd = groups.group_tasks(5)
    random.Random(seed).shuffle(sd)
    for ch in wp.chunks(sd, 32):
        t.append(("enum", 5, ch, 1.0, seed))
    if tier == "quick":
        for i, ch in enumerate(wp.chunks(list(range(1 << 15)), 16)):
            t.append(("graphs6", ch[0], ch[-1] + 1))
        labels = sorted(set(lcorbit.orbit_table(6)))
        for i, ch in enumerate(wp.chunks(labels, 32)):
            t.append(("members6", ch, 25, seed * 100 + i))
        for i in range(16):
            t.append(("neigh", 6, 12, seed * 100 + i))
        for i in range(4):
            t.append(("neigh", 5, 12, seed * 100 + i))
    else:
        for i in range(32):
            t.append(("neigh", 6, 60, seed * 100 + i))
        sd = groups.group_tasks(6)
        # biggest subtrees first so the tail is short
        sd.sort(key=lambda vp: vp[1])
        for s in sd:
            t.append(("enum", 6, [s], 0.1, seed))
    return t


def lib_id(gens, n, fmt="mat"):
    from htstabilizer.stabilizer import Stabilizer
    from htstabilizer.lc_classes import determine_lc_class
    if fmt in ("rebind", "inplace"):
        # the way the repository's own test helper builds stabilizers: a template object whose public R / S are
        # overwritten afterwards (rebound, or edited in place)
        from htstabilizer.graph import Graph
        R, S, ph = ws.matrices(gens, n)
        s = Stabilizer(Graph(n)) if fmt == "rebind" else Stabilizer((np.eye(n, dtype=np.int8), np.zeros((n, n), dtype=np.int8)))
        if fmt == "rebind":
            s.R, s.S = R, S
        else:
            s.R[:] = R
            s.S[:] = S
        s.phases = ph
        ok, r = call(lambda: determine_lc_class(s).id())
        return int(r) if ok else "exc:" + exc_name(r)
    if fmt == "mat":
        R, S, ph = ws.matrices(gens, n)
        s = Stabilizer((R, S, ph))
    else:
        s = Stabilizer(ws.strings(gens, n))
    ok, r = call(lambda: determine_lc_class(s).id())
    return int(r) if ok else "exc:" + exc_name(r)


def graph_label(g, n):
    A = np.asarray(g.adjacency_matrix)
    rows = [sum((int(A[a, b]) & 1) << b for b in range(n)) for a in range(n)]
    return lcorbit.orbit_table(n)[lcorbit.code_of(rows, n)]


def sequence_on_object(p, gens, n, label):
    """Call sequence on ONE class object as returned by the classifier: id(), str(), ==, get_graph(), id()."""
    from htstabilizer.stabilizer import Stabilizer
    from htstabilizer.lc_classes import determine_lc_class
    case = {"kind": "sequence", "n": n, "gens": ws.strings(gens, n)}
    ok, c = call(lambda: determine_lc_class(Stabilizer(ws.strings(gens, n))))
    if not ok:
        return
    p.evals += 1
    p.counters["call sequences on one class object"] += 1
    ok, r = call(lambda: (c.id(), str(c), c == type(c)(c.id()), c.get_graph(), c.id(), c.get_graph()))
    if not ok:
        p.violate("class-object-sequence raises n=%d" % n, "id(); str(); ==; get_graph(); id() on the class object of %s raised %s" % (case["gens"], exc_name(r)), case)
        return
    i1, _, eq, g1, i2, g2 = r
    l1, l2 = graph_label(g1, n), graph_label(g2, n)
    if i1 != i2 or not eq:
        p.violate("class-object-id-unstable n=%d" % n, "class object of %s reports id %s, then %s (== rebuilt object: %s)" % (case["gens"], i1, i2, eq), case)
    if l1 != label or l2 != label:
        p.violate("class-object-graph-wrong-after-id n=%d" % n,
                  "class object of %s (orbit %d, id %s): get_graph() after id() lies in orbit %d / %d" % (case["gens"], label, i1, l1, l2), case)


def _note(p, n, cid, label, gens):
    pairs = p.extra.setdefault("pairs", {})
    k = (n, cid, label)
    if k not in pairs:
        pairs[k] = [to_str((g[0], g[1], g[2] if len(g) > 2 else 0), n) for g in gens]


def work(task):
    p = Partial()
    kind = task[0]
    if kind == "enum":
        _, n, seeds, frac, seed = task
        rnd = random.Random("%s-%s" % (seed, seeds[0]))
        for sd in seeds:
            for rows in groups.groups_from_task(sd, n):
                gens = [groups.split(v, n) + (0,) for v in rows]
                label = lcorbit.orbit_label(gens, n)
                cid = lib_id(gens, n)
                p.evals += 1
                p.counters["n=%d groups" % n] += 1
                if label != 0:
                    p.distinct_count += 1
                _note(p, n, cid, label, gens)
                if label and rnd.random() < (0.05 if n <= 5 else 0.002):
                    sequence_on_object(p, gens, n, label)
                if frac >= 1.0 or rnd.random() < frac:
                    alt = groups.random_presentation([(x, z, rnd.getrandbits(1)) for x, z, s in gens], n, rnd)
                    cid2 = lib_id(alt, n, ("str", "mat", "mat", "rebind", "inplace")[p.evals % 5])
                    p.evals += 1
                    p.counters["re-presentations"] += 1
                    if cid2 != cid:
                        p.violate("class-id-depends-on-presentation n=%d" % n,
                                  "same group, generators %s -> id %s but generators %s -> id %s"
                                  % (ws.strings(gens, n), cid, ws.strings(alt, n), cid2),
                                  {"kind": "pair", "n": n, "a": ws.strings(gens, n), "b": ws.strings(alt, n)})
                if len(p.samples) < 1 and label != 0:
                    p.sample({"n": n, "generators": ws.strings(gens, n), "library id": cid, "oracle orbit label": label})
    elif kind == "graphs6":
        _, a, b = task
        n = 6
        for code in range(a, b):
            gens = lcorbit.graph_gens(code, n)
            label = lcorbit.orbit_table(n)[code]
            cid = lib_id(gens, n)
            p.evals += 1
            p.counters["n=6 graph states"] += 1
            if label != 0:
                p.nontrivial((n, groups.canon_unsigned(gens, n)))
            _note(p, n, cid, label, gens)
    elif kind == "members6":
        _, labels, reps, seed = task
        n = 6
        rnd = random.Random(seed)
        orb = lcorbit.orbit_members(n)
        for label in labels:
            for _ in range(reps):
                m = ws.member(label, n, rnd, orb[label])
                cid = lib_id(m["gens"], n, ("str", "mat", "rebind", "inplace")[_ % 4])
                p.evals += 1
                p.counters["n=6 random members"] += 1
                if label != 0:
                    p.nontrivial((n, groups.canon_unsigned(m["gens"], n)))
                _note(p, n, cid, label, m["gens"])
                if _ < 3:
                    sequence_on_object(p, m["gens"], n, label)
        if labels and len(p.samples) < 1:
            p.sample({"n": n, "generators": ws.strings(m["gens"], n), "library id": cid, "oracle orbit label": label})
    elif kind == "neigh":
        # anchors followed immediately by their tableau neighbours (1-2 bits apart) and by all stabilizers that share
        # all but the first / last generator: requests on which an answer computed for the anchor is most easily reused
        _, n, cnt, seed = task
        rnd = random.Random(seed)
        labels = sorted(set(lcorbit.orbit_table(n)))
        orb = lcorbit.orbit_members(n)
        for k in range(cnt):
            label = labels[rnd.randrange(len(labels))]
            a = ws.member(label, n, rnd, orb[label], style=ws.STYLES[k % len(ws.STYLES)], mix=bool(k % 3 == 0))
            sibs = ws.tableau_neighbours(a["gens"], n) + ws.generator_replacements(a["gens"], n, 0) + ws.generator_replacements(a["gens"], n, n - 1)
            fmt = ("mat", "str")[k % 2]
            cid = lib_id(a["gens"], n, fmt)
            p.evals += 1
            _note(p, n, cid, label, a["gens"])
            for g in sibs:
                lab = lcorbit.orbit_label(g, n)
                cid = lib_id(g, n, fmt)
                p.evals += 1
                p.counters["n=%d tableau neighbours / generator siblings" % n] += 1
                if lab:
                    p.nontrivial((n, groups.canon_unsigned(g, n)))
                _note(p, n, cid, lab, g)
                if rnd.random() < 0.1:
                    cid = lib_id(a["gens"], n, fmt)
                    _note(p, n, cid, label, a["gens"])
        if cnt and len(p.samples) < 1:
            p.sample({"n": n, "anchor": ws.strings(a["gens"], n), "a neighbour": ws.strings(g, n), "neighbours and siblings": len(sibs)})
    elif kind == "sameobject":
        # one Stabilizer object (built from a Graph, whose matrix it shares) classified again and again while the caller
        # edits the graph through the public Graph API
        from htstabilizer.stabilizer import Stabilizer
        from htstabilizer.graph import Graph
        from htstabilizer.lc_classes import determine_lc_class
        _, cnt, seed = task
        rnd = random.Random(seed)
        for k in range(cnt):
            n = rnd.randint(4, 6)
            code = rnd.randrange(1, 1 << (n * (n - 1) // 2))
            rows = lcorbit.adj_rows(code, n)
            g = Graph(np.array([[(rows[a] >> b) & 1 for b in range(n)] for a in range(n)], dtype=np.int8))
            s = Stabilizer(g)
            for step in range(5):
                label = lcorbit.orbit_table(n)[lcorbit.code_of(rows, n)]
                ok, cid = call(lambda: determine_lc_class(s).id())
                cid = int(cid) if ok else "exc:" + exc_name(cid)
                p.evals += 1
                p.counters["same Stabilizer object re-classified after graph edits"] += 1
                _note(p, n, cid, label, lcorbit.graph_gens(lcorbit.code_of(rows, n), n))
                a, b = rnd.sample(range(n), 2)
                if (rows[a] >> b) & 1:
                    g.remove_edge(a, b)
                    rows[a] &= ~(1 << b)
                    rows[b] &= ~(1 << a)
                else:
                    g.add_edge(a, b)
                    rows[a] |= 1 << b
                    rows[b] |= 1 << a
    elif kind == "classes":
        from htstabilizer import lc_classes
        n = task[1]
        cls = getattr(lc_classes, "LCClass%d" % n)
        ok, K = call(cls.count)
        p.evals += 1
        if not ok or K != lcorbit.NUM_ORBITS[n]:
            p.violate("class-count n=%d" % n, "LCClass%d.count() = %r, expected %d" % (n, K, lcorbit.NUM_ORBITS[n]),
                      {"kind": "classes", "n": n})
            return p
        reps = p.extra.setdefault("reps", {})
        for i in range(K):
            p.evals += 1
            ok, r = call(lambda: cls(i).id())
            if not ok or r != i:
                p.violate("class-roundtrip n=%d id=%d" % (n, i), "LCClass%d(%d).id() -> %r" % (n, i, r if ok else exc_name(r)),
                          {"kind": "classes", "n": n})
            ok, g = call(lambda: cls(i).get_graph())
            if not ok:
                p.violate("class-graph n=%d id=%d" % (n, i), "LCClass%d(%d).get_graph() raised %s" % (n, i, exc_name(g)),
                          {"kind": "classes", "n": n})
                continue
            reps[(n, i)] = graph_label(g, n)
            p.counters["representative graphs"] += 1
            # the caller edits the representative it was given (and a Stabilizer built from it); a representative fetched
            # afterwards must be unaffected
            from htstabilizer.stabilizer import Stabilizer as _St
            ok_s, st_ = call(_St, g)
            call(g.remove_all_edges_to, 0)
            call(g.add_edge, 0, n - 1)
            if ok_s:
                call(lambda: st_.S.fill(0))
            ok, g3 = call(lambda: cls(i).get_graph())
            if ok and graph_label(g3, n) != reps[(n, i)]:
                p.violate("representative-graph-aliased n=%d id=%d" % (n, i),
                          "LCClass%d(%d).get_graph() lies in orbit %d after the caller edited a previously returned representative (orbit %d before)"
                          % (n, i, graph_label(g3, n), reps[(n, i)]), {"kind": "classes", "n": n})
            # the same questions on ONE object, in the order a user would ask them
            ok, r2 = call(lambda: (lambda c: (c.id(), str(c), c.get_graph(), c.id(), c.get_graph()))(cls(i)))
            if not ok:
                p.violate("class-object-sequence raises n=%d" % n, "LCClass%d(%d): id(); str(); get_graph(); id() raised %s" % (n, i, exc_name(r2)), {"kind": "classes", "n": n})
            elif (r2[0], r2[3]) != (i, i) or graph_label(r2[2], n) != reps[(n, i)] or graph_label(r2[4], n) != reps[(n, i)]:
                p.violate("class-object-changes-after-id n=%d id=%d" % (n, i),
                          "LCClass%d(%d): a fresh object's get_graph() lies in orbit %d, but after id() the same object reports ids %s/%s and graphs in orbits %d/%d"
                          % (n, i, reps[(n, i)], r2[0], r2[3], graph_label(r2[2], n), graph_label(r2[4], n)), {"kind": "classes", "n": n})
    return p


def merge_extra(a, b):
    pa = a.setdefault("pairs", {})
    for k, v in b.get("pairs", {}).items():
        pa.setdefault(k, v)
    a.setdefault("reps", {}).update(b.get("reps", {}))


def finalize(total, tier, seed):
    from ..core import Inconclusive
    pairs = total.extra.pop("pairs", {})
    reps = total.extra.pop("reps", {})
    summary = {}
    for n in range(2, 7):
        sub = {(cid, lab): w for (m, cid, lab), w in pairs.items() if m == n}
        ids = {}
        labs = {}
        for (cid, lab), w in sub.items():
            ids.setdefault(cid, []).append((lab, w))
            labs.setdefault(lab, []).append((cid, w))
        for cid, lst in ids.items():
            if not isinstance(cid, int):
                total.violate("classifier-raises n=%d" % n, "determine_lc_class raised %s on valid group %s" % (cid, lst[0][1]),
                              {"kind": "single", "n": n, "gens": lst[0][1]})
            elif len(lst) > 1:
                total.violate("class-id-merges-orbits n=%d id=%s" % (n, cid),
                              "id %s is given to LC-inequivalent groups: %s (orbit %d) and %s (orbit %d)"
                              % (cid, lst[0][1], lst[0][0], lst[1][1], lst[1][0]),
                              {"kind": "pair", "n": n, "a": lst[0][1], "b": lst[1][1], "expect": "different"})
        for lab, lst in labs.items():
            if len(lst) > 1:
                total.violate("class-id-splits-orbit n=%d orbit=%d" % (n, lab),
                              "LC-equivalent groups %s and %s (orbit %d) receive ids %s and %s"
                              % (lst[0][1], lst[1][1], lab, lst[0][0], lst[1][0]),
                              {"kind": "pair", "n": n, "a": lst[0][1], "b": lst[1][1], "expect": "same"})
        K = lcorbit.NUM_ORBITS[n]
        int_ids = sorted(c for c in ids if isinstance(c, int))
        if len(labs) == K and int_ids != list(range(K)) and not total.violations:
            total.violate("class-ids-not-0..K-1 n=%d" % n, "ids in use: %s..." % int_ids[:10], {"kind": "classes", "n": n})
        id2lab = {cid: lst[0][0] for cid, lst in ids.items() if len(lst) == 1}
        for (m, i), lab in reps.items():
            if m == n and i in id2lab and id2lab[i] != lab:
                total.violate("representative-graph-wrong-class n=%d id=%d" % (n, i),
                              "LCClass%d(%d).get_graph() lies in orbit %d, but groups with id %d lie in orbit %d"
                              % (n, i, lab, i, id2lab[i]), {"kind": "classes", "n": n})
        summary[str(n)] = {"ids_seen": len(ids), "orbits_seen": len(labs), "pairs": len(sub)}
        if len(labs) != K:
            raise Inconclusive("n=%d: only %d of %d orbits visited" % (n, len(labs), K))
    total.extra["ev_id_orbit_relation"] = summary
    total.extra["exhaustive"] = (tier == "thorough")
    total.extra["ev_exhaustive_part"] = "all groups n<=5" + (" and all 4,922,775 groups of n=6" if tier == "thorough" else "; all 6-vertex graph states")


def replay(cj):
    from ..oracle.pauli import parse_pauli
    vs = []
    n = cj["n"]
    if cj["kind"] == "pair":
        a = [parse_pauli(s) for s in cj["a"]]
        b = [parse_pauli(s) for s in cj["b"]]
        ia, ib = lib_id(a, n), lib_id(b, n)
        same = lcorbit.orbit_label(a, n) == lcorbit.orbit_label(b, n)
        if (ia == ib) != same or not isinstance(ia, int) or not isinstance(ib, int):
            vs.append({"key": "class-id-relation", "what": "ids %s / %s, LC-equivalent: %s" % (ia, ib, same)})
    elif cj["kind"] == "sequence":
        p = Partial()
        a = [parse_pauli(s) for s in cj["gens"]]
        sequence_on_object(p, a, n, lcorbit.orbit_label(a, n))
        vs = p.violations
    elif cj["kind"] == "single":
        a = [parse_pauli(s) for s in cj["gens"]]
        ia = lib_id(a, n)
        if not isinstance(ia, int):
            vs.append({"key": "classifier-raises", "what": str(ia)})
    else:
        p = work(("classes", n))
        vs = p.violations
    return vs
