"""C01 - the preparation circuit prepares exactly the requested signed stabilizer state.

Monitor: every get_preparation_circuit(stabilizer, connectivity) call of the workload is observed at
the API boundary; the returned instruction list is conjugated through the independent signed tableau
and the canonical signed group of circuit|0..0> must equal the canonical signed group of the input.
"""
import random

from ..core import Partial, call, exc_name, Retained, h64
from ..oracle import conn as oconn, groups, lcorbit
from ..oracle.pauli import gates_of, state_of, UnknownGate, to_str
from ..oracle.circ import fmt as fmt_gates
from ..workload import pipeline as wp, stabilizers as ws

PID = "C01"
ASSUMPTIONS = [
    "oracle kernel (signed Pauli tableau, canonical forms) is correct; it is self-tested against dense matrices at the start of the run",
    "qiskit's QuantumCircuit container reports the instruction list faithfully (data, find_bit)",
    "n = 6 groups, generating sets and (beyond the exhaustive tiers) sign vectors are sampled, not enumerated",
]


def RULE(tier):
    return ("cases = (signed stabilizer group in a generating set and input format, connectivity); generated "
            "exhaustively over all groups x all sign vectors for n<=3 (thorough: n<=4; all 75,735 groups at n=5), "
            "plus LC-class-stratified random members (random graph of the orbit x 24^n local Cliffords x "
            "sign flips x GL(n,2) recombination; also uniform layers, Pauli frames, all-minus signs) for every (configuration, class) "
            "pair, each member on all its configurations consecutively, plus request sequences around anchors (tableau neighbours 1-2 bits "
            "apart, stabilizers sharing all but one generator, one-qubit Clifford variants) and a retention monitor on every returned "
            "circuit; a case is non-trivial when "
            "its state is entangled (orbit label != 0); distinct = distinct (n, connectivity, format, canonical "
            "signed group)")


def plan(tier, seed):
    t = []
    if tier == "quick":
        t += wp.enum_tasks(2, 1, "all", "all", seed)
        t += wp.enum_tasks(3, 4, "all", "all", seed)
        t += wp.enum_tasks(4, 16, 2, "all", seed)
        t += wp.member_tasks(5, 3, 16, seed, plain_graph_every=7)
        t += wp.member_tasks(6, 1, 48, seed, plain_graph_every=7)
    else:
        t += wp.enum_tasks(2, 1, "all", "all", seed)
        t += wp.enum_tasks(3, 4, "all", "all", seed)
        t += wp.enum_tasks(4, 32, "all", "all", seed)
        t += wp.enum_tasks(5, 64, 1, 3, seed)
        # a uniform 3% sample of ALL 4,922,775 six-qubit groups in canonical (RREF) generators - a distribution that the
        # class-stratified members do not produce
        t += wp.enum_tasks(6, 255, 1, 1, seed, frac=0.03)
        t += wp.member_tasks(5, 10, 16, seed, plain_graph_every=7)
        t += wp.member_tasks(6, 20, 96, seed, plain_graph_every=7)
    for n, k, fr in ((2, 1, 1.0), (3, 1, 1.0), (4, 2, 1.0), (5, 6, 1.0), (6, 24, 0.34 if tier == "quick" else 1.0)):
        t += wp.tablerep_tasks(n, k, seed, fr)
    for n, cnt in ((4, 16), (5, 16), (6, 32)):
        t += wp.neighbour_tasks(n, cnt if tier == "quick" else cnt * 12, 16, seed, per_anchor=36 if tier == "quick" else 80)
    random.Random(seed).shuffle(t)
    return t


def check_case(case, p=None, retain=None, stab_cache=None):
    """Run one case against the real API.  Returns a list of violations (key, what)."""
    from htstabilizer.stabilizer_circuits import get_preparation_circuit
    n = case["n"]
    out = []
    own_circuit = None
    if case["fmt"] == "circuit" and case.get("circuit") and h64(("own", tuple(case["gens"]))) % 2 == 0:
        # the caller keeps using its own circuit object after building the Stabilizer from it (appends the next gates):
        # the Stabilizer still denotes what it denoted when it was built
        from htstabilizer.stabilizer import Stabilizer
        own_circuit = ws.qiskit_circuit(case["circuit"], n)
        ok, st = call(lambda: (Stabilizer(own_circuit), "circuit"))
        if ok:
            call(own_circuit.z, 0)
            call(own_circuit.x, n - 1)
            call(own_circuit.h, n // 2)
            call(own_circuit.cx, 0, n - 1)
    else:
        ckey = tuple(case["gens"])
        if stab_cache is not None and stab_cache.get("key") == ckey and stab_cache.get("fmt") in ("str+", "str", "mat3", "mat") and case["fmt"] != "circuit":
            ok, st = True, stab_cache["obj"]        # the caller holds on to its Stabilizer object across requests
        else:
            ok, st = call(ws.make_stabilizer, case, case["fmt"], random.Random(n))
        if ok and stab_cache is not None:
            stab_cache["key"], stab_cache["obj"], stab_cache["fmt"] = ckey, st, st[1]
    if not ok:
        return [("input-rejected n=%d fmt=%s" % (n, case["fmt"]),
                 "constructing the Stabilizer for a valid input raised %s: %s" % (exc_name(st), st))], None
    stab, fmt_used = st
    if own_circuit is not None:
        fmt_used = "circuit (caller went on editing its circuit afterwards)"
    if h64(tuple(case["gens"])) % 3 == 0:
        call(repr, stab)                    # print(stabilizer) before asking for the circuit: must not matter
        call(stab.to_list)
    ok, qc = call(get_preparation_circuit, stab, case["conn"])
    if not ok:
        return [("prep-raises n=%d conn=%s" % (n, case["conn"]),
                 "get_preparation_circuit raised %s (%s) on a valid stabilizer %s"
                 % (exc_name(qc), qc, ws.strings(case["gens"], n)))], None
    gates = gates_of(qc)
    if retain is not None:
        retain.add(qc, {"case": wp.case_json(case), "requested": ws.strings(case["gens"], n)})
    try:
        got = groups.canon(state_of(gates, n), n)
    except UnknownGate as e:
        return [], ("unknown-gate", str(e))
    want = groups.canon(case["gens"], n)
    if got != want:
        unsigned_ok = got is not None and [g[:2] for g in got] == [g[:2] for g in want]
        out.append(("prep-wrong-%s n=%d conn=%s" % ("signs" if unsigned_ok else "group", n, case["conn"]),
                    "requested %s via %s on %s; circuit [%s] prepares %s"
                    % (ws.strings(case["gens"], n), fmt_used, case["conn"], fmt_gates(gates),
                       [to_str(g, n) for g in (got or [])])))
    return out, gates


def digest_circuit(qc):
    return tuple(gates_of(qc))


def retention_verdicts(p, retain, api):
    """Circuits handed out earlier in this task must still be what they were when they were returned."""
    for info, d0, d1 in retain.changed():
        p.violate("returned-circuit-changed-later api=%s" % api,
                  "the circuit returned for %s was [%s] at return time but is [%s] after later calls of the same API "
                  "(the library edited an object it had already handed out)" % (info["requested"], fmt_gates(list(d0)), fmt_gates(list(d1)) if isinstance(d1, tuple) else d1),
                  dict(info["case"], retention=True))
    p.counters["returned circuits re-inspected after later calls"] += len(retain.items)
    retain.clear()


def sign_variants(case, k=2):
    """The same Pauli operators with other sign patterns (requested right after the case itself)."""
    n = case["n"]
    seed = h64((case["conn"], tuple(case["gens"])))
    rnd = random.Random(seed)
    out = []
    for _ in range(k):
        pat = [rnd.getrandbits(1) for _ in range(n)]
        g2 = [(x, z, s ^ b) for (x, z, s), b in zip(case["gens"], pat)]
        if g2 != case["gens"]:
            out.append(dict(case, gens=g2, circuit=None, graph_state=False, fmt=case["fmt"] if case["fmt"] in ("str+", "str", "mat3") else "str+",
                            stratum=case["stratum"] + "-signvariant"))
    return out


def work(task):
    p = Partial()
    retain = Retained(digest_circuit, 600)
    stab_cache = {}
    cases = wp.iter_cases(task)

    def with_variants():
        for c in cases:
            yield c
            if h64((c["conn"], tuple(c["gens"]))) % 8 == 0:
                for v in sign_variants(c):
                    yield v
                yield c                             # and the original request once more
    for case in with_variants():
        p.evals += 1
        vs, gates = check_case(case, retain=retain, stab_cache=stab_cache)
        p.counters["conf %d-%s" % (case["n"], case["conn"])] += 1
        p.counters["fmt " + case["fmt"]] += 1
        p.counters["stratum " + case["stratum"].replace("-signvariant", " (sign variants of the same operators)")] += 1
        p.extra.setdefault("labels", set()).add((case["n"], case["conn"], case["label"]))
        if isinstance(gates, tuple):
            p.counters["unknown-gate cases"] += 1
        elif gates is not None:
            lead = 0
            for nm, qs in gates:
                if nm != "x":
                    break
                lead += 1
            p.counters["sign layer non-empty" if lead else "sign layer empty"] += 1
        if case["label"] != 0:
            p.nontrivial(wp.case_key(case))
        for key, what in vs:
            p.violate(key, what, wp.case_json(case))
        if len(p.samples) < 2:
            p.sample(wp.sample_of(case))
    retention_verdicts(p, retain, "prepare")
    return p


def finalize(total, tier, seed):
    from ..core import Inconclusive
    want = {(n, c, l) for (n, c) in oconn.CONFIGS for l in set(lcorbit.orbit_table(n))}
    seen = total.extra.pop("labels", set())
    missing = want - seen
    total.extra["ev_config_class_pairs_seen"] = len(seen & want)
    total.extra["ev_config_class_pairs_total"] = len(want)
    total.extra["exhaustive"] = False
    total.extra["ev_exhaustive_part"] = ("all groups x all sign vectors x all configurations for n<=%d"
                                         % (3 if tier == "quick" else 4)) + \
        ("; all groups n=4 x 2 sign vectors" if tier == "quick" else "; all 75,735 groups of n=5 x 3 configurations")
    if missing:
        raise Inconclusive("%d (configuration, class) pairs never visited, e.g. %r" % (len(missing), sorted(missing)[:3]))
    c = total.counters
    if c["unknown-gate cases"] > max(1, total.evals // 1000):
        raise Inconclusive("%d returned circuits use gates the oracle cannot conjugate" % c["unknown-gate cases"])
    served = c["sign layer non-empty"] + c["sign layer empty"]
    if served and not total.violations:
        if c["sign layer non-empty"] < served // 10 or c["sign layer empty"] < served // 100:
            raise Inconclusive("sign-layer reach floor not met: %d non-empty / %d empty"
                               % (c["sign layer non-empty"], c["sign layer empty"]))
    for f in ("str+", "str", "mat3", "circuit", "graph"):
        if not c["fmt " + f]:
            raise Inconclusive("input format %s never exercised" % f)


def replay(case_j):
    case = wp.case_from_json(case_j)
    if case_j.get("retention"):
        # history effect: request the same generators with every sign pattern, then look at all results again
        import itertools
        p = Partial()
        retain = Retained(digest_circuit, 100)
        n = case["n"]
        for sg in list(itertools.product((0, 1), repeat=n))[:16]:
            c2 = dict(case, gens=[(x, z, s) for (x, z, _), s in zip(case["gens"], sg)], circuit=None, graph_state=False, fmt="str+")
            check_case(c2, retain=retain)
        retention_verdicts(p, retain, "prepare")
        return p.violations
    vs, _ = check_case(case)
    return [{"key": k, "what": w} for k, w in vs]
