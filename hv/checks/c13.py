"""C13 - results are a function of the arguments only: no history or aliasing effects.

Monitor: recorded API sessions (hv/checks/c13_session.py).  Each session runs in a brand-new
interpreter with its own PYTHONHASHSEED, interleaves calls of every public entry point, adversarial
caller-side mutation of everything returned earlier, legal in-place edits of the caller's own argument
objects followed by a call with the very same objects, and re-requests, and logs for every call the
argument digests before/after and the result digest.  Offline oracle over the log: every result must
equal the answer of a *pristine* process for the same arguments (a zygote forked before the first
library call answers each request in a freshly forked grandchild: caches cold, no history), and for a
sample of the requests also the answer of a different interpreter with a different hash seed; the
arguments must be unchanged by the call.  An audit hook records table-file opens (cold / warm cache).
"""
import json
import os
import random
import subprocess

from .. import env
from ..core import Partial

PID = "C13"
ASSUMPTIONS = ["sessions are sampled (the space of interleavings is unbounded); requests come from a small pool so re-requests after mutation are frequent",
               "attribute assignment on StabilizerCircuitInfo objects is not part of the mutation workload; Stabilizer objects are never mutated as *returned* objects, but the caller's own graph / matrices / circuit / lists behind them are edited in place between calls (at most 5 edits per argument set)",
               "a process forked before the first library call is equivalent to a fresh interpreter (additionally cross-checked against a separately started interpreter with another hash seed)"]


def RULE(tier):
    return ("cases = one API call inside a recorded session: %d sessions x %d events (calls of 18 entry points with arguments "
            "from pools in the formats strings / matrices / graph / circuit, 30%% caller-side mutations of earlier results: list "
            "clear/append/reverse/item and nested-item assignment/pop, circuit gates appended / data cleared / metadata and readout "
            "info edited, dict overwrite/clear, graph edits, ndarray fill, MUBInfo members), caller circuits with their own metadata, "
            "15%% in-place edits of the caller's own argument objects followed by a call with the very same objects (graph edge "
            "add/remove/toggle and local complementation, X/Z/sign matrix edits H/S/CZ/generator product/sign flip, gates appended "
            "to the caller's circuit, string list and qubit list edits; reference = pristine process building and editing alike), "
            "a retention monitor on untouched earlier results after every call, three hash seeds; non-trivial = call "
            "issued after at least one mutation of an earlier result of the same entry point or a re-request; distinct = distinct "
            "(session, event)" % ((16, 600) if tier == "quick" else (96, 3000)))


def plan(tier, seed):
    ns, ne = (16, 600) if tier == "quick" else (96, 3000)
    return [("session", seed * 1000 + i, ne, (0, 1, 12345)[i % 3]) for i in range(ns)]


def run_session_proc(sseed, nevents, hashseed, timeout=3000):
    e = dict(os.environ, PYTHONHASHSEED=str(hashseed), PYTHONDONTWRITEBYTECODE="1", HV_REPO=env.REPO)
    r = subprocess.run([env.PY, "-m", "hv.checks.c13_session", "session", str(sseed), str(nevents)], cwd=env.VERIF, env=e,
                       capture_output=True, text=True, timeout=timeout)
    if "@@RESULT@@" not in r.stdout:
        raise RuntimeError("session process failed: rc=%s stderr=%s" % (r.returncode, r.stderr[-800:]))
    return json.loads(r.stdout.split("@@RESULT@@", 1)[1])


def cross_process(requests, hashseed, timeout=1200):
    """Ask a separately started interpreter (other hash seed) for the same requests."""
    e = dict(os.environ, PYTHONHASHSEED=str(hashseed), PYTHONDONTWRITEBYTECODE="1", HV_REPO=env.REPO)
    inp = "".join(k + "\n" for k, _ in requests)
    r = subprocess.run([env.PY, "-m", "hv.checks.c13_session", "reference"], cwd=env.VERIF, env=e, input=inp,
                       capture_output=True, text=True, timeout=timeout)
    lines = [l for l in r.stdout.split("\n") if l.strip()]
    if len(lines) != len(requests):
        raise RuntimeError("reference process answered %d of %d requests: %s" % (len(lines), len(requests), r.stderr[-500:]))
    return [json.loads(l) for l in lines]


def work(task):
    _, sseed, nevents, hashseed = task
    p = Partial()
    out = run_session_proc(sseed, nevents, hashseed)
    st = out["stats"]
    p.evals += st["calls"]
    p.distinct_count += st["rerequests"]
    for k in ("calls", "cold", "warm", "mutations", "rerequests", "reused_args", "retained_checks", "arg_edits", "calls_after_arg_edit"):
        p.counters["session " + k] += st[k]
    for e, c in st["edit_ops"].items():
        p.counters["own-argument edit " + e] += c
    for e, c in st["entries"].items():
        p.counters["entry " + e] += c
    case = {"session_seed": sseed, "events": nevents, "hashseed": hashseed}
    for v in out["violations"]:
        p.violate(v["key"], "session seed=%d hashseed=%s: %s" % (sseed, hashseed, v["what"]), dict(case, event=v["event"]))
    # cross-process / other hash seed on a sample of the requests
    rnd = random.Random(sseed)
    reqs = out["requests"]
    sample = rnd.sample(reqs, max(3, len(reqs) // 20)) if len(reqs) > 3 else reqs
    other = cross_process(sample, {0: 4242, 1: 0, 12345: 7}[hashseed])
    for (k, want), got in zip(sample, other):
        p.evals += 1
        p.counters["cross-process comparisons"] += 1
        if got != want:
            p.violate("process-dependence entry=%s" % json.loads(k)["entry"],
                      "request %s is answered differently by two pristine processes with hash seeds %s / other: %s vs %s"
                      % (k, hashseed, json.dumps(want)[:160], json.dumps(got)[:160]), dict(case, request=k))
    p.sample({"session seed": sseed, "hash seed": hashseed, "stats": {k: st[k] for k in ("calls", "cold", "warm", "mutations", "rerequests")},
              "last events": out["log_tail"][-3:]})
    return p


def finalize(total, tier, seed):
    from ..core import Inconclusive
    c = total.counters
    if not c["session mutations"] or not c["session rerequests"] or not c["session cold"] or not c["session warm"]:
        raise Inconclusive("sessions did not exercise mutations / re-requests / cold and warm caches: %r" % dict(c))
    if not c["session calls_after_arg_edit"]:
        raise Inconclusive("no call was issued with argument objects the caller had edited in place")
    if not c["cross-process comparisons"]:
        raise Inconclusive("no cross-process comparison ran")


def replay(cj):
    out = run_session_proc(cj["session_seed"], cj["events"], cj["hashseed"])
    return [{"key": v["key"], "what": v["what"]} for v in out["violations"]]
