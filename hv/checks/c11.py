"""C11 - tomography of an ordered qubit subset reconstructs that subset's reduced state.

Monitor: full_state_tomography_circuits(prep, conn, L) and stabilizer_measurement_circuit(prep, stab,
conn, L) on N-qubit registers (N <= 8) with ordered qubit lists L, real fitters fed with exact
statistics; outputs in reduced mode (m-qubit Paulis / density matrix) and full-register mode.
Oracle: qubit L[i] of the register is qubit i of the reported object: the value reported for the
m-qubit Pauli Q must be Tr(rho E_L(Q)) with E_L(Q) the register Pauli carrying factor i of Q on qubit
L[i]; in full-register mode the key must be exactly E_L(Q); the reduced density matrix must equal the
partial trace with the ordered keep-list L.  Values are decided on the operator basis of the
*register* (complete 4^N basis for N <= 5, Paulis supported on L plus random others above) in one
vector-valued pass, and on entangled Haar-random states through scalar counts.
"""
import itertools
import random

import numpy as np

from ..core import Partial, call, exc_name, h64
from ..oracle import conn as oconn, dense, lcorbit
from ..oracle.pauli import group_elements, to_str
from ..workload import pipeline as wp, stabilizers as ws, tomo

PID = "C11"
ASSUMPTIONS = ["exact statistics computed by the oracle", "fitter linear in the counts (monitored in C10)",
               "measured qubits are given as integer indices (list / tuple / numpy ints), as the fitter documents; Qubit objects are not judged",
               "ordered qubit lists for N >= 5 are sampled (always incl. identity order, reversed, [0,N-1,..], [N-1,0,..] and non-monotone lists)"]
TOL = 1e-9


def RULE(tier):
    return ("cases = (API, register size N, ordered qubit list L, configuration for m=len(L)): all ordered m-lists for %s, "
            "%s random ordered lists per (N, m) above up to N=8, m<=6; per case one vector-valued pass over the operator basis of "
            "the register and one scalar pass on an entangled Haar-random state, both output modes; non-trivial = list that is "
            "not invariant under the reversal symmetry q[k] = N-1-q[m-1-k] (where a left/right indexing mix-up is visible); "
            "distinct = distinct (API, N, L, configuration)" % (("N<=4 and N=5, m<=3", "8/4/2 (m<=3/4/>=5)") if tier == "quick" else ("N<=5 and N=6, m<=3", "40/10 (m<=4/>=5)")))


def lists_for(N, m, tier, rnd):
    q = tier == "quick"
    if N <= 4 or (N == 5 and (m <= 3 or not q)) or (N == 6 and m <= 3 and not q):
        return [list(x) for x in itertools.permutations(range(N), m)]
    cnt = (8 if m <= 3 else 4 if m == 4 else 2) if q else (40 if m <= 4 else 10)
    base = [list(range(m)), list(range(m))[::-1], [0, N - 1] + list(range(1, m - 1)), [N - 1, 0] + list(range(1, m - 1)),
            list(range(N - m, N)), [1, 0] + list(range(2, m))]
    out = []
    for b in base:
        if b not in out and len(set(b)) == m:
            out.append(b)
    out = out[:max(cnt, 2)]
    while len(out) < cnt:
        c = rnd.sample(range(N), m)
        if c not in out:
            out.append(c)
    return out


def plan(tier, seed):
    rnd = random.Random(seed)
    t = []
    for N in range(2, 9):
        for m in range(2, min(N, 6) + 1):
            ls = lists_for(N, m, tier, rnd)
            per = 24 if m <= 3 else 6 if m == 4 else 1
            for i in range(0, len(ls), per):
                t.append(("lists", N, m, ls[i:i + per], rnd.randrange(1 << 30)))
    t.sort(key=lambda x: -(x[2] * 10 + x[1]))
    return t


def embed(x, z, L):
    X = sum(((x >> i) & 1) << q for i, q in enumerate(L))
    Z = sum(((z >> i) & 1) << q for i, q in enumerate(L))
    return X, Z


def symmetric(L, N):
    m = len(L)
    return all(L[k] == N - 1 - L[m - 1 - k] for k in range(m))


def columns_for(N, L, rnd):
    """Register Paulis used as operator-basis columns."""
    if N <= 5:
        return None
    m = len(L)
    cols = {(0, 0)}
    sup = [embed(x, z, L) for x in range(2 ** m) for z in range(2 ** m)]
    for pz in (sup if len(sup) <= 300 else rnd.sample(sup, 300)):
        cols.add(pz)
    while len(cols) < min(4 ** N, 700):
        cols.add((rnd.getrandbits(N), rnd.getrandbits(N)))
    return sorted(cols)


def judge_values(p, key, cj, ev_red, ev_full, L, N, m, cols, allowed_keys=None):
    """ev_red: dict m-qubit Pauli -> vector of values per column; ev_full: dict N-qubit Pauli -> vector."""
    collist = cols if cols is not None else [(k & (2 ** N - 1), k >> N) for k in range(4 ** N)]
    index = {c: i for i, c in enumerate(collist)}
    K = len(collist)
    bad = []
    red = {}
    for P, v in ev_red.items():
        x, z, ph = tomo.pauli_key(P)
        if len(P) != m:
            bad.append(("reduced-key-size", "reduced-mode key %s has %d qubits, expected %d" % (P, len(P), m)))
            continue
        if ph:
            bad.append(("signed-key", "key %s carries a phase" % P))
        red[(x, z)] = np.broadcast_to(np.asarray(v, dtype=float), (K,))
    if allowed_keys is not None and set(red) != allowed_keys:
        bad.append(("key-set", "reduced-mode keys differ from the expected set (%d vs %d)" % (len(red), len(allowed_keys))))
    for (x, z), got in red.items():
        X, Z = embed(x, z, L)
        want = np.zeros(K)
        if (x, z) == (0, 0):
            want[:] = 1
        elif (X, Z) in index:
            want[index[(X, Z)]] = 1
        if not np.allclose(got, want, rtol=0, atol=1e-9):
            j = int(np.argmax(np.abs(got - want)))
            bad.append(("wrong-reduced-value",
                        "measured qubits %s of %d: for the register state (I + %s)/2^N the value reported for the %d-qubit Pauli %s is %s, "
                        "exact Tr(rho P) = %s" % (L, N, to_str(collist[j] + (0,), N, False), m, to_str((x, z, 0), m, False), got[j], want[j])))
            break
    p.counters["values compared"] += len(red) * K
    full = {}
    for P, v in ev_full.items():
        x, z, ph = tomo.pauli_key(P)
        if len(P) != N:
            bad.append(("full-key-size", "full-register key %s has %d qubits, expected %d" % (P, len(P), N)))
            continue
        full[(x, z)] = np.broadcast_to(np.asarray(v, dtype=float), (K,))
    want_full = {embed(x, z, L): v for (x, z), v in red.items()}
    if set(full) != set(want_full):
        extra = sorted(set(full) - set(want_full))[:2]
        bad.append(("full-register-keys", "full-register keys are not the reduced keys placed on qubits %s with identities elsewhere, e.g. %s"
                    % (L, [to_str(e + (0,), N, False) for e in extra])))
    else:
        for k2, got in full.items():
            X, Z = k2
            want = np.zeros(K)
            if k2 == (0, 0):
                want[:] = 1
            elif k2 in index:
                want[index[k2]] = 1
            if not np.allclose(got, want, rtol=0, atol=1e-9):
                j = int(np.argmax(np.abs(got - want)))
                bad.append(("wrong-full-value", "measured qubits %s of %d: full-register key %s has value %s for the state (I + %s)/2^N, exact %s"
                            % (L, N, to_str(k2 + (0,), N, False), got[j], to_str(collist[j] + (0,), N, False), want[j])))
                break
    for tag, what in bad[:3]:
        p.violate(key + tag, what, cj)
    return not bad


def run_case(p, cj):
    from htstabilizer.tomography import (full_state_tomography_circuits, stabilizer_measurement_circuit,
                                         FullStateTomographyFitter, StabilizerMeasurementFitter)
    from htstabilizer.stabilizer import Stabilizer
    from qiskit import QuantumCircuit
    N, m, L, conn, api, seed = cj["N"], cj["m"], cj["L"], cj["conn"], cj["api"], cj["seed"]
    rnd = random.Random(seed)
    rng = np.random.default_rng(seed)
    Larg = {"list": list(L), "tuple": tuple(L), "numpy": [np.int64(q) for q in L]}[cj["idx_type"]]
    key = "subset %s " % api
    p.evals += 1
    p.counters["api " + api] += 1
    if not symmetric(L, N):
        p.nontrivial((api, N, tuple(L), conn))
    prep = QuantumCircuit(N)
    if seed % 3 == 0 and N >= 2:
        from qiskit import QuantumRegister
        regs = ws.random_registers(N, rnd)
        prep = QuantumCircuit(*[QuantumRegister(k, "r%d" % i) for i, k in enumerate(regs)])
        p.counters["preparation circuits on several quantum registers"] += 1
    if seed % 2:
        prep.metadata = {"owner": "caller", "register": N}     # legal: the caller's circuit carries its own metadata
    allowed = None
    if api == "tomography":
        ok, circs = call(full_state_tomography_circuits, prep, conn, Larg)
    else:
        label = rnd.choice(sorted(set(lcorbit.orbit_table(m))))
        mem = ws.member(label, m, rnd)
        allowed = {(e[0], e[1]) for e in group_elements(mem["gens"])}
        ok, circs = call(lambda: [stabilizer_measurement_circuit(prep, Stabilizer(ws.strings(mem["gens"], m)), conn, Larg)])
    if not ok:
        p.violate(key + "circuits-raise", "%s raised %s for measured qubits %s of %d on %s" % (api, exc_name(circs), L, N, conn), cj)
        return

    def fitter(counts):
        if api == "tomography":
            return FullStateTomographyFitter(tomo.FakeResult(counts), circs)
        return StabilizerMeasurementFitter(tomo.FakeResult(counts[0]), circs[0])
    # pass 1: operator basis of the register, vector-valued counts
    cols = columns_for(N, L, rnd)
    counts = [tomo.basis_counts(c, N, cols) for c in circs]
    f = fitter(counts)
    ok1, ev_red = call(f.expectation_values, False)
    ok2, ev_full = call(f.expectation_values, True)
    if not (ok1 and ok2):
        e = ev_red if not ok1 else ev_full
        p.violate(key + "fitter-raises", "expectation_values raised %s (%s) for measured qubits %s (%s) of %d"
                  % (exc_name(e), str(e)[:120], L, cj["idx_type"], N), cj)
        return
    if api == "tomography" and len(ev_red) != 4 ** m:
        p.violate(key + "key-count", "%d Paulis reported, expected %d" % (len(ev_red), 4 ** m), cj)
    good = judge_values(p, key, cj, ev_red, ev_full, L, N, m, cols, allowed)
    # pass 2: entangled random state, scalar counts, density matrix in reduced mode
    vecs = tomo.rand_vectors(N, (1, 2, 1)[seed % 3], rng)
    rho = tomo.rho_of(vecs)
    sc = [tomo.vector_counts(c, vecs, N, shots=(None, 1000, 500 + 41 * ci)[seed % 3]) for ci, c in enumerate(circs)]
    f2 = fitter(sc)
    if api == "tomography":
        ok, dm = call(f2.density_matrix, False)
        if not ok:
            p.violate(key + "fitter-raises", "density_matrix raised %s" % exc_name(dm), cj)
            return
        ref = dense.ptrace(rho, list(L), N)
        err = float(np.abs(np.asarray(dm) - ref).max())
        p.counters["reduced density matrices compared"] += 1
        if err > TOL and good:
            p.violate(key + "wrong-reduced-state", "measured qubits %s of %d: reconstructed %d-qubit state differs from the true reduced state by %.3g" % (L, N, m, err), cj)
        elif err > TOL:
            p.counters["dense pass confirms the operator-basis violation"] += 1
    else:
        ok, ev = call(f2.expectation_values, False)
        if ok:
            for P, v in ev.items():
                x, z, ph = tomo.pauli_key(P)
                X, Z = embed(x, z, L)
                want = float(np.real(np.trace(rho @ dense.pauli_mat(X, Z, N))))
                if abs(float(v) - want) > TOL and good:
                    p.violate(key + "wrong-value-dense", "measured qubits %s of %d: value %.6f reported for %s, Tr(rho P) = %.6f" % (L, N, float(v), to_str((x, z, 0), m, False), want), cj)
                    break
            p.counters["dense expectation sets compared"] += 1


def work(task):
    _, N, m, lists, seed = task
    p = Partial()
    rnd = random.Random(seed)
    confs = oconn.configs_for(m)
    for i, L in enumerate(lists):
        for api in ("tomography", "stabilizer-measurement"):
            conn = confs[rnd.randrange(len(confs))]
            cj = {"N": N, "m": m, "L": list(L), "conn": conn, "api": api, "seed": rnd.randrange(1 << 30), "idx_type": ("list", "tuple", "numpy")[i % 3]}
            run_case(p, cj)
        p.counters["N=%d m=%d lists" % (N, m)] += 1
        if len(p.samples) < 1 and not symmetric(L, N):
            p.sample({"register": N, "measured qubits": list(L), "connectivity": "%d-%s" % (m, conn)})
    return p


def finalize(total, tier, seed):
    from ..core import Inconclusive
    c = total.counters
    if not (c["api tomography"] and c["api stabilizer-measurement"]):
        raise Inconclusive("an API was never exercised")
    if not c["reduced density matrices compared"] and not total.violations:
        raise Inconclusive("no reduced density matrix was compared")
    total.extra["ev_exhaustive_part"] = "all ordered qubit lists for %s; complete register operator basis for N<=5" % ("N<=4 and N=5, m<=3" if tier == "quick" else "N<=5 and N=6, m<=3")


def replay(cj):
    p = Partial()
    run_case(p, cj)
    return p.violations
