"""C19 - graph and class codecs are bijective, local complementation is faithful.

Monitor on Graph.compress / Graph.decompress / local_complementation / local_complemented,
LCClassN(id) / .id() and the linear_index to_*/from_* pairs; exhaustive over all graphs on 2..6
vertices x all vertices, all class ids and all grouping indices, compared with an independent
adjacency-bitmask implementation.
"""
import numpy as np

from ..core import Partial, call, exc_name
from ..oracle import lcorbit
from ..workload import pipeline as wp

PID = "C19"
ASSUMPTIONS = ["bit layout of graph ids as documented (row-major upper triangle, least significant bit first)",
               "oracle kernel correct (self-tested)"]
RULE = ("cases = every graph id 0..2^(n(n-1)/2)-1 for n=2..6 (decode, encode, re-encode from a fresh adjacency "
        "matrix) x every vertex (complement in place and as copy, involution, simplicity, orbit label, library class "
        "id), every class id (id -> grouping -> id) and every grouping index of every combinatorics table; exhaustive; "
        "non-trivial = graph with at least one edge / any id; distinct = (n, graph id) resp. (n, class id) resp. "
        "(table, index); plus random operation sequences on one Graph object mirrored on a bitmask model (reference-model monitor)")


def plan(tier, seed):
    t = [("classes", n) for n in range(2, 7)] + [("pairs",)]
    t += [("walks", 400 if tier == "quick" else 6000, seed * 100 + i) for i in range(16)]
    for n in (2, 3, 4, 5):
        t.append(("graphs", n, 0, 1 << (n * (n - 1) // 2)))
    for ch in wp.chunks(list(range(1 << 15)), 32):
        t.append(("graphs", 6, ch[0], ch[-1] + 1))
    return t


def rows_of(g, n):
    A = np.asarray(g.adjacency_matrix)
    return [sum((int(A[a, b]) & 1) << b for b in range(n)) for a in range(n)], A


def simple(A, n):
    return A.shape == (n, n) and np.array_equal(A, A.T) and not np.any(np.diag(A)) and set(np.unique(A)) <= {0, 1}


def work_graphs(task, p):
    from htstabilizer.graph import Graph
    from htstabilizer.stabilizer import Stabilizer
    from htstabilizer.lc_classes import determine_lc_class
    _, n, a, b = task
    table = lcorbit.orbit_table(n)
    for code in range(a, b):
        case = {"kind": "graph", "n": n, "code": code}
        key = "graph-codec n=%d " % n
        p.evals += 1
        if code:
            p.nontrivial(("g", n, code))
        ok, g = call(Graph.decompress, n, code)
        if not ok:
            p.violate(key + "decompress-raises", "Graph.decompress(%d, %d) raised %s" % (n, code, exc_name(g)), case)
            continue
        want = lcorbit.adj_rows(code, n)
        rows, A = rows_of(g, n)
        if rows != want or not simple(A, n):
            p.violate(key + "decompress", "Graph.decompress(%d, %d) gives adjacency rows %s, documented layout gives %s" % (n, code, rows, want), case)
            continue
        ok, c2 = call(g.compress)
        if not ok or c2 != code:
            p.violate(key + "compress", "compress(decompress(%d)) = %r" % (code, c2 if ok else exc_name(c2)), case)
        # encode from an independently built adjacency matrix
        M = np.array([[(want[i] >> j) & 1 for j in range(n)] for i in range(n)], dtype=np.int8)
        ok, c3 = call(lambda: Graph(M.copy()).compress())
        if not ok or c3 != code:
            p.violate(key + "compress-from-matrix", "Graph(adjacency of %d).compress() = %r" % (code, c3 if ok else exc_name(c3)), case)
        ok, cid0 = call(lambda: determine_lc_class(Stabilizer(Graph.decompress(n, code))).id())
        for v in range(n):
            p.evals += 1
            cv = dict(case, vertex=v)
            kv = "local-complementation n=%d " % n
            exp = lcorbit.complement(want, v, n)
            ok, h = call(g.local_complemented, v)
            if not ok:
                p.violate(kv + "raises", "local_complemented(%d) raised %s" % (v, exc_name(h)), cv)
                continue
            hrows, HA = rows_of(h, n)
            if rows_of(g, n)[0] != want:
                p.violate(kv + "copy-mutates", "local_complemented(%d) modified the receiver" % v, cv)
                g = Graph.decompress(n, code)
            if hrows != exp or not simple(HA, n):
                p.violate(kv + "wrong", "graph %d complemented at %d gives rows %s (matrix simple: %s), expected %s"
                          % (code, v, hrows, simple(HA, n), exp), cv)
                continue
            g2 = Graph.decompress(n, code)
            ok, _ = call(g2.local_complementation, v)
            if not ok or rows_of(g2, n)[0] != exp or not simple(rows_of(g2, n)[1], n):
                p.violate(kv + "inplace-wrong", "in-place complementation of graph %d at %d differs from the expected rows %s" % (code, v, exp), cv)
            ok, back = call(h.local_complemented, v)
            if not ok or rows_of(back, n)[0] != want:
                p.violate(kv + "not-involution", "complementing graph %d twice at %d does not restore it" % (code, v), cv)
            if table[lcorbit.code_of(hrows, n)] != table[code]:
                p.violate(kv + "leaves-orbit", "oracle orbit label changed", cv)
            ok2, cid1 = call(lambda: determine_lc_class(Stabilizer(h)).id())
            if ok and ok2 and cid0 != cid1 or not ok2:
                p.violate(kv + "changes-class-id", "graph %d has class id %s, after complementation at %d id %s"
                          % (code, cid0, v, cid1 if ok2 else exc_name(cid1)), cv)
            p.counters["complementations n=%d" % n] += 1
        if len(p.samples) < 1 and code > 5:
            p.sample({"n": n, "graph id": code, "adjacency rows": want, "complemented at 0": lcorbit.complement(want, 0, n)})


def work_walks(task, p):
    """Reference-model monitor: a random sequence of operations on ONE Graph object, mirrored on an
    independent adjacency-bitmask model; after every operation the object's adjacency matrix and its
    compress() id must agree with the model, and decompress(compress()) must equal the object."""
    import random
    from htstabilizer.graph import Graph
    _, cnt, seed = task
    rnd = random.Random(seed)
    for w in range(cnt):
        n = rnd.randint(2, 6)
        code = rnd.randrange(1 << (n * (n - 1) // 2))
        rows = lcorbit.adj_rows(code, n)
        how = ("decompress", "c-array", "fortran-array", "strided-view", "transposed-view", "int64-array")[w % 6]
        if how == "decompress":
            g = Graph.decompress(n, code)
        else:
            M = np.array([[(rows[i] >> j) & 1 for j in range(n)] for i in range(n)], dtype=np.int64 if how == "int64-array" else np.int8)
            if how == "fortran-array":
                M = np.asfortranarray(M)
            elif how == "strided-view":
                big = np.zeros((2 * n, 2 * n), dtype=np.int8)
                big[::2, ::2] = M
                M = big[::2, ::2]
            elif how == "transposed-view":
                M = M.copy().T
            g = Graph(M)
        p.counters["graph object built via " + how] += 1
        trace = ["%s(%d,%d)" % (how, n, code)]
        for step in range(rnd.randint(3, 14)):
            op = rnd.choice(["compress", "lc", "lc", "add", "remove", "swap", "copy", "clear", "remove_all", "edges", "count"])
            a, b = rnd.randrange(n), rnd.randrange(n)
            try:
                if op == "lc":
                    g.local_complementation(a)
                    rows = lcorbit.complement(rows, a, n)
                elif op == "add":
                    g.add_edge(a, b)
                    if a != b:
                        rows[a] |= 1 << b
                        rows[b] |= 1 << a
                elif op == "remove":
                    g.remove_edge(a, b)
                    if a != b:
                        rows[a] &= ~(1 << b)
                        rows[b] &= ~(1 << a)
                elif op == "swap":
                    g.swap(a, b)
                    if a != b:
                        perm = list(range(n))
                        perm[a], perm[b] = b, a
                        rows = [sum(((rows[perm[i]] >> perm[j]) & 1) << j for j in range(n)) for i in range(n)]
                elif op == "copy":
                    g = g.copy()
                elif op == "clear":
                    if rnd.random() < 0.3:
                        g.clear()
                        rows = [0] * n
                elif op == "remove_all":
                    g.remove_all_edges_to(a)
                    rows = [r & ~(1 << a) for r in rows]
                    rows[a] = 0
                elif op == "edges":
                    e = g.get_edges()
                    want = [(i, j) for i in range(n) for j in range(i + 1, n) if (rows[i] >> j) & 1]
                    if [tuple(int(v) for v in x) for x in e] != want:
                        raise AssertionError("get_edges() = %s, model %s" % (e, want))
                elif op == "count":
                    if int(g.edge_count()) != sum(bin(r).count("1") for r in rows) // 2:
                        raise AssertionError("edge_count() = %s" % g.edge_count())
                trace.append("%s(%d,%d)" % (op, a, b))
                p.evals += 1
                got_rows, A = rows_of(g, n)
                c = g.compress()
                back = Graph.decompress(n, c)
                if got_rows != rows or not simple(A, n):
                    raise AssertionError("adjacency rows %s, model %s" % (got_rows, rows))
                if c != lcorbit.code_of(rows, n):
                    raise AssertionError("compress() = %d, model %d" % (c, lcorbit.code_of(rows, n)))
                if not (back == g):
                    raise AssertionError("decompress(compress()) != object")
            except Exception as e:      # noqa: BLE001
                p.violate("graph-object-walk %s" % op, "after %s: %s: %s" % (" ".join(trace[-8:]), type(e).__name__, e), {"kind": "walk", "seed": seed, "count": cnt})
                break
        p.nontrivial(("w", seed, w))
    p.counters["object walks"] += cnt
    p.sample({"walk": " ".join(trace[:10])})


def work_classes(task, p):
    from htstabilizer import lc_classes
    n = task[1]
    cls = getattr(lc_classes, "LCClass%d" % n)
    K = cls.count()
    for i in range(K):
        p.evals += 1
        p.nontrivial(("c", n, i))
        case = {"kind": "class", "n": n, "id": i}
        ok, c = call(cls, i)
        if not ok:
            p.violate("class-codec n=%d decode-raises" % n, "LCClass%d(%d) raised %s" % (n, i, exc_name(c)), case)
            continue
        ok, r = call(c.id)
        if not ok or r != i:
            p.violate("class-codec n=%d id=%d" % (n, i), "LCClass%d(%d) decodes to %r which encodes to %r" % (n, i, c, r if ok else exc_name(r)), case)
            continue
        # rebuilding from (structure, grouping) gives the same id
        ok, r2 = call(lambda: cls(c.type, c.data).id())
        if not ok or r2 != i:
            p.violate("class-codec n=%d regroup id=%d" % (n, i), "LCClass%d(type, grouping) of id %d encodes to %r" % (n, i, r2 if ok else exc_name(r2)), case)
    p.counters["class ids n=%d" % n] += K
    for name, com in cls.combinatorics.items():
        imgs = {}
        for i in range(com["count"]):
            p.evals += 1
            p.nontrivial(("i", n, name, i))
            case = {"kind": "class", "n": n, "id": 0, "table": name, "index": i}
            ok, r = call(com["from_lin_idx1"], i)
            if not ok:
                p.violate("grouping-codec %s raises" % name, "to(%d) raised %s" % (i, exc_name(r)), case)
                continue
            ok, back = call(com["to_lin_idx"], r)
            if not ok or back != i:
                p.violate("grouping-codec %s index=%d" % (name, i), "index %d -> %r -> %r" % (i, r, back if ok else exc_name(back)), case)
            if repr(r) in imgs:
                p.violate("grouping-codec %s not-injective" % name, "indices %d and %d both decode to %r" % (imgs[repr(r)], i, r), case)
            imgs[repr(r)] = i
            flat = sorted(r.flatten()) if hasattr(r, "flatten") else None
            if flat is not None and flat and (len(set(flat)) != len(flat) or min(flat) < 0 or max(flat) >= n):
                p.violate("grouping-codec %s bad-qubits" % name, "index %d decodes to %r which is not a grouping of qubits 0..%d" % (i, r, n - 1), case)
        p.counters["grouping indices"] += com["count"]
    if len(p.samples) < 1:
        p.sample({"n": n, "class id": K - 1, "decoded": repr(cls(K - 1))})


def work_pairs(p):
    from htstabilizer import linear_index as li
    for n in range(2, 9):
        seen = {}
        for i in range(n):
            for j in range(i + 1, n):
                p.evals += 1
                p.nontrivial(("p", n, i, j))
                case = {"kind": "pairs"}
                ok, k = call(li.linear_index_from_n_choose_2, n, i, j)
                if not ok or not 0 <= k < n * (n - 1) // 2 or k in seen:
                    p.violate("pair-index n=%d" % n, "pair (%d,%d) of %d -> %r" % (i, j, n, k if ok else exc_name(k)), case)
                    continue
                seen[k] = (i, j)
                ok, ij = call(li.linear_index_to_n_choose2_to, n, k)
                if not ok or tuple(int(v) for v in ij) != (i, j):
                    p.violate("pair-index-inverse n=%d" % n, "index %d of %d -> %r, expected %r" % (k, n, ij if ok else exc_name(ij), (i, j)), case)
    p.counters["pair indices"] += 1


def work(task):
    p = Partial()
    if task[0] == "graphs":
        work_graphs(task, p)
    elif task[0] == "classes":
        work_classes(task, p)
    elif task[0] == "walks":
        work_walks(task, p)
    else:
        work_pairs(p)
    return p


def finalize(total, tier, seed):
    total.extra["exhaustive"] = True


def replay(cj):
    p = Partial()
    if cj["kind"] == "graph":
        work_graphs(("graphs", cj["n"], cj["code"], cj["code"] + 1), p)
    elif cj["kind"] == "walk":
        work_walks(("walks", cj["count"], cj["seed"]), p)
    elif cj["kind"] == "class":
        work_classes(("classes", cj["n"]), p)
    else:
        work_pairs(p)
    return p.violations
