"""C08 - no silent wrong answers: invalid or unsupported requests are rejected.

Monitor: outcome class (returned / exception type) of Stabilizer(...).validate(),
get_preparation_circuit and get_readout_circuit on arbitrary Pauli sets, and of every public entry
point on a (qubit count, connectivity name) grid.  A returned circuit is judged by the tableau oracle
against the operators that were given.  Any exception type counts as "rejected".
"""
import itertools
import random

import numpy as np

from ..core import Partial, call, exc_name
from ..oracle import conn as oconn, groups, lcorbit
from ..oracle.circ import fmt as fmt_gates
from ..oracle.pauli import gates_of, state_of, conj_circuit, to_str, hmul, commute, UnknownGate
from ..workload import pipeline as wp, stabilizers as ws

PID = "C08"
ASSUMPTIONS = ["any exception type counts as rejection", "matrices for n>=3 (circuit APIs) and n>=4 are sampled, half of them one edit away from a valid stabilizer"]
NAMES = ["all", "linear", "star", "cycle", "T", "Q", "ladder", "E", "H", "ALL", "Linear", "line", "ring", "", "allx", "full", "all ", " all",
         "t", "q", "e", "h", "Ladder", "cycle6", "star0", "../data/stabilizer6-all", None, 5]


def data_dir_names():
    """Connectivity names that occur in file names of the data directory (stray tables are the natural way
    for an unadvertised configuration to become servable)."""
    import os
    import re
    from .. import env
    out = set()
    for f in os.listdir(os.path.join(env.SRC, "htstabilizer", "data")):
        m = re.match(r"^(?:stabilizer|mub)\d+-(.+)\.txt$", f)
        if m:
            out.add(m.group(1))
    return sorted(out)


def RULE(tier):
    return ("cases = one Pauli set (n operators on n qubits, valid or not) handed to validate / prepare / readout: all 2^8 "
            "matrix pairs x 4 sign vectors for n=2, %s of the 2^18 pairs for n=3 (validate) and %d through the circuit APIs, %d "
            "random / dependent / anticommuting / one-edit-from-valid sets per n=4..6, malformed string lists; plus the grid "
            "n in 0..8 x ~30 connectivity names (documented ones, near-misses, every name occurring in the data directory) x 11 entry points; non-trivial = invalid set or non-advertised grid point; "
            "distinct = distinct (n, operators, signs) resp. (entry point, n, name)"
            % (("30,000", 4000, 1000) if tier == "quick" else ("all", 40000, 12000)))


def plan(tier, seed):
    q = tier == "quick"
    t = [("n2", seed), ("grid", seed), ("strings", seed)]
    if q:
        for i in range(8):
            t.append(("n3validate", "sample", 30000 // 8, seed * 100 + i))
    else:
        for ch in wp.chunks(list(range(0, 1 << 18, 1 << 12)), 32):
            t.append(("n3validate", "range", ch[0], ch[-1] + (1 << 12)))
    for i in range(8):
        t.append(("sets", 3, (4000 if q else 40000) // 8, seed * 100 + i))
    for n in (4, 5, 6):
        for i in range(8):
            t.append(("sets", n, (1000 if q else 12000) // 8, seed * 100 + 10 * n + i))
    for i in range(8):
        t.append(("buffers", 40 if q else 500, seed * 100 + i))
    # invalid sets that look like graph-state generators: R = identity (or a permutation), S asymmetric
    t.append(("graphform", 3, "all", seed))
    for ch in wp.chunks(list(range(64)), 8):
        t.append(("graphform", 4, ch, seed))
    for n in (5, 6):
        for i in range(4):
            t.append(("graphform", n, (120 if q else 1500) // 4, seed * 100 + i))
    random.Random(seed).shuffle(t)
    return t


def judge_set(p, gens, n, confs, apis=True, fmt="mat", stab_obj=None):
    """gens: list of n (x,z,s), arbitrary."""
    from htstabilizer.stabilizer import Stabilizer
    from htstabilizer.stabilizer_circuits import get_preparation_circuit, get_readout_circuit
    valid = groups.is_valid_stabilizer(gens, n)
    case = {"kind": "set", "n": n, "gens": [to_str(g, n) for g in gens], "fmt": fmt, "confs": list(confs)}
    if stab_obj is not None:
        ok, s = True, stab_obj
    elif fmt == "mat":
        R, S, ph = ws.matrices(gens, n)
        ok, s = call(Stabilizer, (R, S, ph))
    else:
        ok, s = call(Stabilizer, ws.strings(gens, n, fmt == "str+"))
    p.evals += 1
    if not ok:
        p.counters["constructor raised"] += 1
        return
    ok, v = call(s.validate)
    p.counters["validate valid" if valid else "validate invalid"] += 1
    if not ok or bool(v) != valid:
        p.violate("validate wrong n=%d" % n, "validate() -> %s for %s which is %s"
                  % (v if ok else exc_name(v), case["gens"], "a valid stabilizer" if valid else "not n commuting independent Paulis"), case)
    if not valid:
        p.nontrivial((n, tuple(gens)))
    ok, v2 = call(lambda: Stabilizer(ws.strings(gens, n), validate=True))
    if ok != valid:
        p.violate("constructor validate=True wrong n=%d" % n, "Stabilizer(..., validate=True) %s for %s set %s"
                  % ("accepted" if ok else "rejected", "a valid" if valid else "an invalid", case["gens"]), case)
    if not apis:
        return
    for conn in confs:
        ok, qc = call(get_preparation_circuit, s, conn)
        p.evals += 1
        p.counters["prepare %s -> %s" % ("valid" if valid else "invalid", "returned" if ok else "raised")] += 1
        if ok:
            try:
                out = state_of(gates_of(qc), n)
                wrong = [g for g in gens if not groups.in_signed_group(g, out, n)]
            except UnknownGate:
                wrong = []
            if not valid:
                p.violate("prepare-accepts-non-stabilizer n=%d" % n, "get_preparation_circuit returned a circuit for %s on %s although the set is not a stabilizer%s"
                          % (case["gens"], conn, " (and the output state is not stabilised by %s)" % to_str(wrong[0], n) if wrong else ""), case)
            elif wrong:
                p.violate("prepare-silently-wrong n=%d" % n, "circuit for %s on %s is not stabilised by %s" % (case["gens"], conn, to_str(wrong[0], n)), case)
        elif valid:
            p.violate("prepare-rejects-valid n=%d" % n, "get_preparation_circuit raised %s (%s) for the valid stabilizer %s on %s"
                      % (exc_name(qc), str(qc)[:80], case["gens"], conn), case)
        ok, qc = call(get_readout_circuit, s, conn)
        p.evals += 1
        p.counters["readout %s -> %s" % ("valid" if valid else "invalid", "returned" if ok else "raised")] += 1
        if ok:
            try:
                wrong = [g for g in gens if conj_circuit(g, gates_of(qc))[0] != 0]
            except UnknownGate:
                wrong = []
            if wrong:
                p.violate("readout-silently-wrong n=%d" % n, "readout circuit [%s] returned for %s on %s does not diagonalise %s"
                          % (fmt_gates(gates_of(qc))[:200], case["gens"], conn, to_str(wrong[0], n)), case)
        elif valid:
            p.violate("readout-rejects-valid n=%d" % n, "get_readout_circuit raised %s for the valid stabilizer %s on %s" % (exc_name(qc), case["gens"], conn), case)


def make_set(n, rnd, mode):
    if mode == "random":
        return [(rnd.getrandbits(n), rnd.getrandbits(n), rnd.getrandbits(1)) for _ in range(n)]
    lab = rnd.choice(sorted(set(lcorbit.orbit_table(n))))
    gens = ws.member(lab, n, rnd)["gens"]
    if mode == "valid":
        return gens
    gens = list(gens)
    if mode == "dep":              # one generator replaced by a product of others (signs may contradict)
        i, j = rnd.sample(range(n), 2)
        x, z, s = hmul(gens[i], gens[j]) if n == 2 else hmul(gens[j], gens[(j + 1) % n] if (j + 1) % n != i else gens[j])
        gens[i] = (x, z, s ^ rnd.getrandbits(1))
    elif mode == "identity":
        gens[rnd.randrange(n)] = (0, 0, rnd.getrandbits(1))
    elif mode == "dup":
        i, j = rnd.sample(range(n), 2)
        gens[i] = gens[j]
    elif mode == "flip":           # single-bit flip: usually breaks commutation
        i = rnd.randrange(n)
        x, z, s = gens[i]
        if rnd.getrandbits(1):
            x ^= 1 << rnd.randrange(n)
        else:
            z ^= 1 << rnd.randrange(n)
        gens[i] = (x, z, s)
    return gens


MODES = ("random", "valid", "dep", "identity", "dup", "flip", "flip", "dep")


def work_grid(p):
    from qiskit import QuantumCircuit
    from htstabilizer import stabilizer_circuits as sc, mub_circuits as mc, connectivity_support as cs, tomography as tm
    from htstabilizer.stabilizer import Stabilizer
    ok, av = call(cs.get_available_connectivities)
    p.evals += 1
    if not ok or sorted(map(tuple, av)) != oconn.CONFIGS:
        p.violate("grid available-list", "get_available_connectivities() = %r" % (av,), {"kind": "grid"})

    def zstab(n):
        if n == 0:
            return Stabilizer((np.zeros((0, 0), dtype=np.int8), np.zeros((0, 0), dtype=np.int8)))
        return Stabilizer(["I" * i + "Z" + "I" * (n - 1 - i) for i in range(n)])
    names = list(NAMES) + [x for x in data_dir_names() if x not in NAMES]
    for n in range(0, 9):
        for name in names:
            adv = (n, name) in oconn.EDGES
            entries = {
                "get_preparation_circuit": lambda: sc.get_preparation_circuit(zstab(n), name),
                "get_readout_circuit": lambda: sc.get_readout_circuit(zstab(n), name),
                "compress_preparation_circuit": lambda: sc.compress_preparation_circuit(QuantumCircuit(n), name),
                "get_mub_circuits": lambda: mc.get_mub_circuits(n, name),
                "get_mubs": lambda: mc.get_mubs(n, name),
                "get_mub_info": lambda: mc.get_mub_info(n, name),
                "get_connectivity_graph": lambda: cs.get_connectivity_graph(n, name),
                "assert_connectivity_is_supported": lambda: cs.assert_connectivity_is_supported(n, name),
                "is_connectivity_supported": lambda: cs.is_connectivity_supported(n, name),
                "stabilizer_measurement_circuit": lambda: tm.stabilizer_measurement_circuit(QuantumCircuit(n), zstab(n), name),
                "full_state_tomography_circuits": lambda: tm.full_state_tomography_circuits(QuantumCircuit(n), name),
            }
            for ep, fn in entries.items():
                ok, r = call(fn)
                p.evals += 1
                case = {"kind": "grid", "entry": ep, "n": n, "name": name}
                if not adv:
                    p.nontrivial((ep, n, str(name)))
                if ep == "is_connectivity_supported":
                    served = ok and r is True
                    rejected = (ok and r is False) or not ok
                else:
                    served = ok
                    rejected = not ok
                p.counters["grid %s %s" % ("advertised" if adv else "other", "served" if served else "rejected")] += 1
                if adv and not served:
                    p.violate("grid advertised-rejected entry=%s" % ep, "%s rejects the advertised configuration (%d, %r): %s"
                              % (ep, n, name, exc_name(r) if not ok else r), case)
                if not adv and not rejected:
                    p.violate("grid unsupported-served entry=%s" % ep, "%s serves the non-advertised configuration (%d, %r) and returned %s"
                              % (ep, n, name, type(r).__name__), case)
    p.sample({"grid": "n=0..8 x %d names x 11 entry points" % len(names), "names": [str(x) for x in names]})


def work_strings(p, seed):
    from htstabilizer.stabilizer import Stabilizer
    from htstabilizer.stabilizer_circuits import get_preparation_circuit
    rnd = random.Random(seed)
    for i in range(300):
        n = rnd.randint(2, 6)
        gens = make_set(n, rnd, "valid")
        lst = ws.strings(gens, n, True)
        mode = i % 5
        if mode == 0:
            lst = lst[:-1]                                 # too few
        elif mode == 1:
            lst = lst + [lst[0]]                           # too many
        elif mode == 2:
            lst[rnd.randrange(n)] += "Z"                   # one string too long
        elif mode == 3:
            k = rnd.randrange(n)
            lst[k] = lst[k][:-1]                           # one string too short
        else:
            lst = [s[1:] if s[0] == "+" and rnd.getrandbits(1) else s for s in lst]   # mixed prefixes: still valid
        p.evals += 1
        ok, s = call(Stabilizer, lst)
        case = {"kind": "strings", "list": lst}
        if mode == 4:
            if not ok:
                p.violate("strings mixed-prefix-rejected", "Stabilizer(%s) raised %s" % (lst, exc_name(s)), case)
            else:
                ok2, qc = call(get_preparation_circuit, s, "all")
                if not ok2 or groups.canon(state_of(gates_of(qc), n), n) != groups.canon(gens, n):
                    p.violate("strings mixed-prefix-wrong", "mixed sign prefixes %s not handled" % lst, case)
            continue
        p.nontrivial(("strings", tuple(lst)))
        if ok:
            ok2, qc = call(get_preparation_circuit, s, "all")
            p.counters["malformed list accepted by constructor, %s by prepare" % ("served" if ok2 else "rejected")] += 1
            if ok2:
                p.violate("strings malformed-list-served", "malformed Pauli list %s produced a circuit silently" % lst, case)
        else:
            p.counters["malformed list rejected by constructor"] += 1
    p.sample({"malformed list": lst})


def work(task):
    p = Partial()
    kind = task[0]
    if kind == "n2":
        n = 2
        for code in range(1 << 8):
            R = [(code >> k) & 1 for k in range(8)]
            for sg in itertools.product((0, 1), repeat=2):
                gens = [(R[0] | R[1] << 1, R[2] | R[3] << 1, sg[0]), (R[4] | R[5] << 1, R[6] | R[7] << 1, sg[1])]
                judge_set(p, gens, n, ["all"], fmt=("mat", "str+", "str")[code % 3])
        p.sample({"n": 2, "operators": [to_str(g, 2) for g in gens]})
    elif kind == "n3validate":
        n = 3
        if task[1] == "sample":
            rnd = random.Random(task[3])
            codes = [rnd.getrandbits(18) for _ in range(task[2])]
        else:
            codes = range(task[2], task[3])
        for code in codes:
            gens = [((code >> (6 * j)) & 7, (code >> (6 * j + 3)) & 7, 0) for j in range(3)]
            judge_set(p, gens, n, [], apis=False)
        p.sample({"n": 3, "operators": [to_str(g, 3) for g in gens]})
    elif kind == "sets":
        _, n, cnt, seed = task
        rnd = random.Random(seed)
        confs = oconn.configs_for(n)
        for i in range(cnt):
            gens = make_set(n, rnd, MODES[i % len(MODES)])
            judge_set(p, gens, n, [confs[i % len(confs)]], fmt=("mat", "str+")[i % 2])
            p.counters["mode " + MODES[i % len(MODES)]] += 1
        p.sample({"n": n, "operators": [to_str(g, n) for g in gens], "mode": MODES[(cnt - 1) % len(MODES)]})
    elif kind == "buffers":
        # the caller re-uses its own buffers: int8 matrices / a Graph object edited in place between requests, a new
        # Stabilizer object built from the same buffers each time; every answer must fit the contents at call time
        from htstabilizer.stabilizer import Stabilizer
        from htstabilizer.graph import Graph
        _, cnt, seed = task
        rnd = random.Random(seed)
        for i in range(cnt):
            n = rnd.randint(3, 6)
            conn = rnd.choice(oconn.configs_for(n))
            if i % 2 == 0:
                gens = [(x, z, 0) for x, z, s_ in make_set(n, rnd, "valid")]
                R, S, ph = ws.matrices(gens, n, np.int8)
                for step in range(4):
                    cur = [(sum((int(R[q, j]) & 1) << q for q in range(n)), sum((int(S[q, j]) & 1) << q for q in range(n)), 0) for j in range(n)]
                    judge_set(p, cur, n, [conn], stab_obj=Stabilizer((R, S)))
                    k = rnd.randrange(3)
                    if k == 0:
                        (R if rnd.getrandbits(1) else S)[rnd.randrange(n), rnd.randrange(n)] ^= 1         # single bit (usually invalid afterwards)
                    elif k == 1:
                        g2 = [(x, z, 0) for x, z, s_ in make_set(n, rnd, "valid")]
                        R2, S2, _ = ws.matrices(g2, n, np.int8)
                        R[:] = R2
                        S[:] = S2                                                                        # buffer refilled with another valid stabilizer
                    else:
                        j1, j2 = rnd.sample(range(n), 2)
                        R[:, j1] ^= R[:, j2]
                        S[:, j1] ^= S[:, j2]                                                             # same group, other generators
                p.counters["re-used matrix buffers"] += 1
            else:
                code = rnd.randrange(1, 1 << (n * (n - 1) // 2))
                rows = lcorbit.adj_rows(code, n)
                g = Graph(np.array([[(rows[a] >> b) & 1 for b in range(n)] for a in range(n)], dtype=np.int8))
                same_obj = Stabilizer(g) if i % 4 == 1 else None     # one Stabilizer object kept across the caller's edits of its graph
                for step in range(4):
                    judge_set(p, lcorbit.graph_gens(lcorbit.code_of(rows, n), n), n, [conn], stab_obj=same_obj if same_obj is not None else Stabilizer(g))
                    if rnd.getrandbits(1):
                        v = rnd.randrange(n)
                        g.local_complementation(v)
                        rows = lcorbit.complement(rows, v, n)
                    else:
                        a, b = rnd.sample(range(n), 2)
                        if (rows[a] >> b) & 1:
                            g.remove_edge(a, b)
                            rows[a] &= ~(1 << b)
                            rows[b] &= ~(1 << a)
                        else:
                            g.add_edge(a, b)
                            rows[a] |= 1 << b
                            rows[b] |= 1 << a
                p.counters["re-used Graph objects"] += 1
        p.sample({"stratum": "caller re-uses and edits its own matrix buffers / Graph object between requests", "n": n, "connectivity": conn})
    elif kind == "graphform":
        _, n, what, seed = task
        rnd = random.Random("%s-%s-%s" % (n, what, seed))
        confs = oconn.configs_for(n)

        def from_S(Srows, perm=None):
            perm = perm or list(range(n))
            return [(1 << perm[v], Srows[v], rnd.getrandbits(1)) for v in range(n)]
        if n == 3:
            for code in range(1 << 9):                      # every 3x3 Z-part with R = identity (valid and invalid)
                Srows = [(code >> (3 * v)) & 7 for v in range(3)]
                for c in confs:
                    judge_set(p, from_S(Srows), n, [c], fmt=("mat", "str+")[code % 2])
            p.counters["graph-form sets n=3 (all 512 Z-parts)"] += 512
        else:
            M = 1 << (n * (n - 1) // 2)
            codes = what if n == 4 else [rnd.randrange(M) for _ in range(what)]
            for code in codes:
                rows = lcorbit.adj_rows(code, n)
                edits = [(a, b) for a in range(n) for b in range(n)]
                if n > 4:
                    edits = rnd.sample(edits, 6)
                for (a, b) in edits:
                    S2 = list(rows)
                    S2[a] ^= 1 << b                                   # one asymmetric edit (a == b: a Y on the diagonal, still valid)
                    if rnd.random() < 0.3:
                        a2, b2 = rnd.randrange(n), rnd.randrange(n)
                        S2[a2] ^= 1 << b2
                    perm = list(range(n))
                    if rnd.random() < 0.2:
                        rnd.shuffle(perm)
                    judge_set(p, from_S(S2, perm), n, [rnd.choice(confs)], fmt=("mat", "str+")[(a + b) % 2])
                    p.counters["graph-form near-miss sets n=%d" % n] += 1
        p.sample({"n": n, "stratum": "graph-form generators with asymmetric Z-part"})
    elif kind == "grid":
        work_grid(p)
    else:
        work_strings(p, task[1])
    return p


def finalize(total, tier, seed):
    from ..core import Inconclusive
    c = total.counters
    need = ["validate valid", "validate invalid", "prepare invalid -> raised", "prepare valid -> returned", "readout valid -> returned",
            "grid advertised served", "grid other rejected"]
    for k in need:
        if not c[k] and not total.violations:
            raise Inconclusive("outcome %r never observed" % k)
    total.extra["ev_exhaustive_part"] = "all 2^8 x 4 signed matrix pairs n=2" + ("; all 2^18 pairs n=3 for validate" if tier == "thorough" else "") + "; complete (n, name, entry point) grid"


def replay(cj):
    from ..oracle.pauli import parse_pauli
    p = Partial()
    if cj["kind"] == "set":
        judge_set(p, [parse_pauli(s) for s in cj["gens"]], cj["n"], cj["confs"], fmt=cj.get("fmt", "mat"))
    elif cj["kind"] == "grid":
        work_grid(p)
        if cj.get("entry"):
            p.violations = [v for v in p.violations if v["case"].get("entry") == cj["entry"]]
    else:
        work_strings(p, 0)
    return p.violations
