"""C03 - the readout circuit diagonalises the whole stabilizer group, is independent of the signs of
the generators, and its inverse prepares the state up to signs.

Monitor at the get_readout_circuit boundary; oracle = independent tableau: all 2^n group elements
(products formed by the oracle) are conjugated through the returned instruction list.
"""
import itertools
import random

from ..core import Partial, call, exc_name, Retained, h64
from ..oracle import conn as oconn, groups, lcorbit
from ..oracle.pauli import gates_of, conj_circuit, group_elements, inverse_gates, state_of, UnknownGate, to_str
from ..oracle.circ import fmt as fmt_gates
from ..workload import pipeline as wp, stabilizers as ws

PID = "C03"
ASSUMPTIONS = [
    "oracle kernel correct (self-tested at start of run)",
    "groups of n=5,6 (quick: n=4 signs) and generating sets are sampled",
]


def RULE(tier):
    return ("cases = (stabilizer, connectivity): all groups for n<=4 (thorough: n<=5), class-stratified random "
            "members for every (configuration, class) pair at n=5,6; per case the readout API is called for the "
            "given signs and for further sign patterns of the same generators (all 2^n for n<=3, 2 random otherwise) "
            "and every one of the 2^n group elements is conjugated through the result; plus request sequences around anchors (tableau "
            "neighbours, generator siblings, one-qubit variants) and a retention monitor on returned circuits; non-trivial = entangled "
            "state; distinct = distinct (n, connectivity, format, canonical signed group)")


def plan(tier, seed):
    t = []
    if tier == "quick":
        t += wp.enum_tasks(2, 1, 1, "all", seed)
        t += wp.enum_tasks(3, 4, 1, "all", seed)
        t += wp.enum_tasks(4, 16, 1, 2, seed)
        t += wp.member_tasks(5, 2, 16, seed, plain_graph_every=9)
        t += wp.member_tasks(6, 1, 48, seed, plain_graph_every=9)
    else:
        t += wp.enum_tasks(2, 1, 1, "all", seed)
        t += wp.enum_tasks(3, 4, 1, "all", seed)
        t += wp.enum_tasks(4, 16, 2, "all", seed)
        t += wp.enum_tasks(5, 64, 1, 2, seed)
        t += wp.enum_tasks(6, 255, 1, 1, seed, frac=0.015)     # uniform sample of all six-qubit groups
        t += wp.member_tasks(5, 6, 16, seed, plain_graph_every=9)
        t += wp.member_tasks(6, 8, 96, seed, plain_graph_every=9)
    for n, k, fr in ((2, 1, 1.0), (3, 1, 1.0), (4, 2, 1.0), (5, 6, 1.0), (6, 24, 0.34 if tier == "quick" else 1.0)):
        t += wp.tablerep_tasks(n, k, seed, fr)
    for n, cnt, per in ((4, 8, 24), (5, 8, 24), (6, 32, 120)):
        t += wp.neighbour_tasks(n, cnt if tier == "quick" else cnt * 12, 16, seed, per_anchor=per if tier == "quick" else 200)
    random.Random(seed).shuffle(t)
    return t


def check_case(case, rnd, retain=None, stab_cache=None):
    from htstabilizer.stabilizer_circuits import get_readout_circuit
    n = case["n"]
    vs = []
    # one Stabilizer object is used for all consecutive requests that describe the same generators in the same format
    # (e.g. one member on all its configurations), as a caller holding on to its object would do
    ckey = tuple(case["gens"])
    if stab_cache is not None and stab_cache.get("key") == ckey and stab_cache.get("fmt") in ("str+", "str", "mat3", "mat") and case["fmt"] != "circuit":
        ok, st = True, stab_cache["obj"]
    else:
        ok, st = call(ws.make_stabilizer, case, case["fmt"], random.Random(n))
    if not ok:
        return [("input-rejected n=%d fmt=%s" % (n, case["fmt"]), "Stabilizer() raised %s: %s" % (exc_name(st), st))], 0
    if stab_cache is not None:
        stab_cache["key"], stab_cache["obj"], stab_cache["fmt"] = ckey, st, st[1]
    stab, fmt_used = st
    if str(case.get("stratum", "")).startswith("table-representative") or h64(tuple(case["gens"])) % 16 == 0:
        # the caller first asks for the preparation circuit and goes on building on it (appends gates): must not matter
        from htstabilizer.stabilizer_circuits import get_preparation_circuit
        okp, prep = call(get_preparation_circuit, stab, case["conn"])
        if okp:
            call(prep.h, 0)
            call(prep.cx, 0, n - 1)
            call(prep.measure_all)
    ok, qc = call(get_readout_circuit, stab, case["conn"])
    if not ok:
        return [("readout-raises n=%d conn=%s" % (n, case["conn"]),
                 "get_readout_circuit raised %s (%s) on valid stabilizer %s" % (exc_name(qc), qc, ws.strings(case["gens"], n)))], 0
    gates = gates_of(qc)
    if retain is not None:
        retain.add(qc, {"case": wp.case_json(case), "requested": ws.strings(case["gens"], n)})
    calls = 1
    try:
        bad = [e for e in group_elements(case["gens"]) if conj_circuit(e, gates)[0] != 0]
        if bad:
            vs.append(("readout-not-diagonal n=%d conn=%s" % (n, case["conn"]),
                       "stabilizer %s on %s: readout [%s] maps group element %s to an operator with X part"
                       % (ws.strings(case["gens"], n), case["conn"], fmt_gates(gates), to_str(bad[0], n))))
        # inverse prepares the state up to signs
        inv = inverse_gates(gates)
        if groups.canon_unsigned(state_of(inv, n), n) != groups.canon_unsigned(case["gens"], n):
            vs.append(("readout-inverse-wrong n=%d conn=%s" % (n, case["conn"]),
                       "inverse of readout [%s] does not prepare the group of %s up to signs"
                       % (fmt_gates(gates), ws.strings(case["gens"], n))))
    except UnknownGate:
        return vs, -1
    # sign independence: same generators, other sign patterns -> identical instruction list
    if n <= 3:
        pats = list(itertools.product((0, 1), repeat=n))
    else:
        pats = [tuple(rnd.getrandbits(1) for _ in range(n)) for _ in range(2)]
    for pat in pats:
        g2 = [(x, z, s) for (x, z, _), s in zip(case["gens"], pat)]
        if g2 == case["gens"]:
            continue
        c2 = dict(case, gens=g2, circuit=None, graph_state=False)
        f2 = case["fmt"] if case["fmt"] in ("str+", "str", "mat3") else "str+"
        ok, st2 = call(ws.make_stabilizer, c2, f2, random.Random(n))
        if not ok:
            continue
        ok, qc2 = call(get_readout_circuit, st2[0], case["conn"])
        calls += 1
        if not ok:
            vs.append(("readout-raises n=%d conn=%s" % (n, case["conn"]),
                       "get_readout_circuit raised %s on %s" % (exc_name(qc2), ws.strings(g2, n))))
            continue
        if gates_of(qc2) != gates:
            vs.append(("readout-depends-on-signs n=%d conn=%s" % (n, case["conn"]),
                       "generators %s vs %s (signs only) give different readout circuits [%s] vs [%s]"
                       % (ws.strings(case["gens"], n), ws.strings(g2, n), fmt_gates(gates), fmt_gates(gates_of(qc2)))))
    return vs, calls


def work(task):
    from .c01 import digest_circuit, retention_verdicts
    p = Partial()
    rnd = random.Random(repr(task[-2:]))
    retain = Retained(digest_circuit, 600)
    stab_cache = {}
    for case in wp.iter_cases(task):
        vs, calls = check_case(case, rnd, retain, stab_cache)
        p.evals += max(calls, 1)
        p.counters["conf %d-%s" % (case["n"], case["conn"])] += 1
        p.counters["fmt " + case["fmt"]] += 1
        p.counters["group elements conjugated"] += 2 ** case["n"]
        if calls > 1:
            p.counters["sign-variant calls"] += calls - 1
        if calls < 0:
            p.counters["unknown-gate cases"] += 1
        p.extra.setdefault("labels", set()).add((case["n"], case["conn"], case["label"]))
        if case["label"] != 0:
            p.nontrivial(wp.case_key(case))
        for key, what in vs:
            p.violate(key, what, wp.case_json(case))
        if len(p.samples) < 2:
            p.sample(wp.sample_of(case))
    retention_verdicts(p, retain, "readout")
    return p


def finalize(total, tier, seed):
    from ..core import Inconclusive
    want = {(n, c, l) for (n, c) in oconn.CONFIGS for l in set(lcorbit.orbit_table(n))}
    seen = total.extra.pop("labels", set())
    total.extra["ev_config_class_pairs_seen"] = len(seen & want)
    total.extra["ev_config_class_pairs_total"] = len(want)
    if want - seen:
        raise Inconclusive("%d (configuration, class) pairs never visited" % len(want - seen))
    if total.counters["unknown-gate cases"] > max(1, total.evals // 1000):
        raise Inconclusive("returned circuits use gates the oracle cannot conjugate")
    if not total.counters["sign-variant calls"]:
        raise Inconclusive("sign-independence monitor never evaluated")


def replay(case_j):
    case = wp.case_from_json(case_j)
    vs, _ = check_case(case, random.Random(1))
    return [{"key": k, "what": w} for k, w in vs]
