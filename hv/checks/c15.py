"""C15 - group predicates agree with the mathematical definitions.

Monitors: icontract post-conditions on Stabilizer.is_equivalent_mod_phase / expand /
is_qubit_entangled (hv/monitor/contracts.py): equivalence <=> equal unsigned canonical forms,
expand() columns = the 2^n distinct products, entangled <=> no weight-one group element on that qubit.
"""
import itertools
import random

import numpy as np

from ..core import Partial, call, exc_name
from ..monitor import contracts
from ..oracle import groups, lcorbit
from ..oracle.pauli import commute, conj_circuit, to_str
from ..workload import pipeline as wp, stabilizers as ws

PID = "C15"
ASSUMPTIONS = ["only valid stabilizers are judged (the statement is restricted to them)", "pairs at n>=4 are sampled"]


def RULE(tier):
    return ("cases = one predicate evaluation: all ordered pairs of groups for n<=3 in random presentations (equivalence), "
            "%d structured pairs per n=4..6 (same group re-presented, one generator replaced, one qubit rotated, one CZ applied, "
            "random), every (group, qubit) for n<=5 plus class-stratified members at n=6 (entanglement), every group n<=4 plus "
            "members n=5,6 (expansion); non-trivial = entangled state / inequivalent-but-close pair; distinct = distinct "
            "(predicate, canonical signed groups, qubit)" % (7000 if tier == "quick" else 60000))


def plan(tier, seed):
    q = tier == "quick"
    t = [("pairs_all", 2, seed), ("ent", 2, groups.group_tasks(2), seed), ("ent", 3, groups.group_tasks(3), seed),
         ("ent", 4, groups.group_tasks(4), seed)]
    g3 = list(range(135))
    for ch in wp.chunks(g3, 9):
        t.append(("pairs_all3", ch, seed))
    sd = groups.group_tasks(5)
    random.Random(seed).shuffle(sd)
    for ch in wp.chunks(sd, 24):
        t.append(("ent", 5, ch, seed))
    for n in (4, 5, 6):
        for i in range(8):
            t.append(("pairs", n, (7000 if q else 60000) // 8, seed * 100 + i))
    for i in range(8):
        t.append(("members6", (760 if q else 7600) // 8, seed * 100 + i))
    if tier == "thorough":
        t.append(("repo-tests",))
    random.Random(seed).shuffle(t)
    return t


def stab(gens, n, rnd):
    from htstabilizer.stabilizer import Stabilizer
    r = rnd.random()
    if r < 0.5:
        return Stabilizer(ws.strings(gens, n, rnd.random() < 0.5))
    dt = rnd.choice([np.int8, np.int8, np.int64, np.uint8, np.bool_])     # binary matrices in the dtypes callers have at hand
    R, S, ph = ws.matrices(gens, n, dt)
    return Stabilizer((R, S, ph.astype(np.int8))) if rnd.random() < 0.7 else Stabilizer((R, S))


def light(gens0, n, rnd):
    """The same generators, only re-ordered and with other signs (no re-mixing of the generating set)."""
    g = [(x, z, rnd.getrandbits(1)) for (x, z, *_r) in gens0]
    rnd.shuffle(g)
    return g


def present(gens0, n, rnd):
    gens = [(g[0], g[1], rnd.getrandbits(1)) for g in gens0]
    return groups.random_presentation(gens, n, rnd)


def replace_one(gens, n, rnd):
    """valid stabilizer that shares n-1 generators with <gens>."""
    i = rnd.randrange(n)
    cands = [(x, z, 0) for x in range(1 << n) for z in range(1 << n)
             if (x or z) and not commute((x, z, 0), gens[i]) and all(commute((x, z, 0), gens[k]) for k in range(n) if k != i)]
    h = rnd.choice(cands)
    return [h if k == i else gens[k] for k in range(n)]


def drain(p, what_case):
    for v in contracts.take():
        p.violate(v["contract"] + " " + v["tag"], v["what"], dict(v["case"], predicate=v["contract"]))


def eq_call(p, a, b, n, rnd, near=False):
    k = rnd.randrange(3)
    if k == 0:
        sa, sb = stab(light(a, n, rnd), n, rnd), stab(light(b, n, rnd), n, rnd)        # generating sets as they are
    elif k == 1:
        sa, sb = stab(light(a, n, rnd), n, rnd), stab(present(b, n, rnd), n, rnd)
    else:
        sa, sb = stab(present(a, n, rnd), n, rnd), stab(present(b, n, rnd), n, rnd)
    ok, r = call(sa.is_equivalent_mod_phase, sb)
    p.evals += 1
    if not ok:
        p.violate("is_equivalent_mod_phase raises", "raised %s on valid stabilizers" % exc_name(r),
                  {"a": ws.strings(a, n), "b": ws.strings(b, n), "predicate": "is_equivalent_mod_phase"})
    if near:
        p.nontrivial(("eq", n, groups.canon_unsigned(a, n), groups.canon_unsigned(b, n)))
    p.counters["equivalence -> %s" % (r if ok else "exc")] += 1
    drain(p, None)


def object_sequence(p, gens, n, rnd):
    """The predicates on ONE object, interleaved with the other things a user does with it (classification,
    readout / preparation requests, printing).  The contracts judge every predicate evaluation."""
    from htstabilizer.lc_classes import determine_lc_class
    from htstabilizer.stabilizer_circuits import get_readout_circuit, get_preparation_circuit
    from ..oracle import conn as oconn
    s = stab(gens, n, rnd)
    other = stab(present(gens, n, rnd), n, rnd)
    # "twins" that share their raw bytes with this object's matrices under another shape / orientation are validated first
    # (a result remembered under a key that forgets shape or orientation would be picked up by the predicates below)
    from htstabilizer.stabilizer import Stabilizer
    R, S, _ph = ws.matrices(present(gens, n, rnd), n)
    gen_rows = np.concatenate([R.T, S.T], axis=1)                      # n x 2n, one generator per row
    for twin in (gen_rows.reshape(2 * n, n), np.concatenate([R, S]).T.copy().reshape(2 * n, n), np.concatenate([R.T, S.T])):
        call(lambda: Stabilizer((np.ascontiguousarray(twin[:n]), np.ascontiguousarray(twin[n:]))).validate())
    other_same = Stabilizer((R.copy(), S.copy()))
    steps = [lambda: s.expand(), lambda: other_same.is_equivalent_mod_phase(s), lambda: s.is_equivalent_mod_phase(other_same),lambda: s.expand(), lambda: determine_lc_class(s).id(), lambda: s.expand(), lambda: s.is_qubit_entangled(rnd.randrange(n)),
             lambda: repr(s), lambda: get_readout_circuit(s, rnd.choice(oconn.configs_for(n))), lambda: s.expand(),
             lambda: s.is_equivalent_mod_phase(other), lambda: get_preparation_circuit(s, rnd.choice(oconn.configs_for(n))),
             lambda: s.to_list(), lambda: s.expand(), lambda: other.is_equivalent_mod_phase(s), lambda: s.is_qubit_entangled(rnd.randrange(n))]
    first = None
    for k, st in enumerate(steps):
        ok, r = call(st)
        p.evals += 1
        if k == 0 and ok:
            first = (np.array(r[0], copy=True), np.array(r[1], copy=True), r)
    if first is not None:
        # retention: the arrays handed out by the first expand() must not have been edited by the later calls
        if not (np.array_equal(first[0], first[2][0]) and np.array_equal(first[1], first[2][1])):
            p.violate("expand result-changed-later", "the arrays returned by expand() for %s were modified by later calls on the same object" % ws.strings(gens, n),
                      {"a": ws.strings(gens, n), "predicate": "sequence"})
    p.counters["call sequences on one object"] += 1
    drain(p, None)


def work(task):
    if task[0] == "repo-tests":
        # the repository's own tests as one more workload, with the contracts attached
        p = Partial()
        r = contracts.run_repo_tests(('predicates',), ['test_stabilizer.py', 'test_lc_classes.py'])
        if r is None:
            p.counters["repository tests under contracts: could not run"] += 1
            return p
        log, evals, status = r
        p.evals += sum(v for k, v in evals.items() if "out-of-domain" not in k)
        p.counters["repository tests under contracts: contract evaluations"] += sum(evals.values())
        for v in log:
            if v["contract"].startswith(('is_equivalent_mod_phase', 'expand', 'is_qubit_entangled')):
                p.violate("under-repo-tests " + v["contract"] + " " + v.get("tag", ""), v["what"] + " (while running the repository's own tests)", dict(v.get("case") or {}, repo_tests=True))
        p.extra["contract_evals"] = __import__("collections").Counter({k: v for k, v in evals.items()})
        return p
    contracts.install("htstabilizer", which=("predicates",))
    contracts.take()
    p = Partial()
    kind = task[0]
    if kind in ("pairs_all", "pairs_all3"):
        n = 2 if kind == "pairs_all" else 3
        allg = [[groups.split(v, n) + (0,) for v in rows] for rows in groups.all_groups(n)]
        idx = range(len(allg)) if kind == "pairs_all" else task[1]
        rnd = random.Random("%s-%s" % (task[-1], list(idx)[0]))
        for i in idx:
            for j in range(len(allg)):
                eq_call(p, allg[i], allg[j], n, rnd, near=True)
        p.sample({"predicate": "is_equivalent_mod_phase", "a": ws.strings(allg[list(idx)[0]], n), "b": ws.strings(allg[-1], n)})
    elif kind == "pairs":
        _, n, cnt, seed = task
        rnd = random.Random(seed)
        orb = lcorbit.orbit_members(n)
        labels = sorted(orb)
        for i in range(cnt):
            a = ws.member(rnd.choice(labels), n, rnd, None)["gens"]
            mode = i % 5
            if mode == 0:
                b = a
            elif mode == 1:
                b = replace_one(a, n, rnd)
            elif mode == 2:
                qb = rnd.randrange(n)
                g = [(nm, (qb,)) for nm in lcorbit.LC1[rnd.randrange(1, 6)]]
                b = [conj_circuit(x, g) for x in a]
            elif mode == 3:
                qa, qb = rnd.sample(range(n), 2)
                b = [conj_circuit(x, [("cz", (qa, qb))]) for x in a]
            else:
                b = ws.member(rnd.choice(labels), n, rnd, None)["gens"]
            eq_call(p, a, b, n, rnd, near=mode in (1, 2, 3))
            p.counters["pair mode %d" % mode] += 1
        p.sample({"predicate": "is_equivalent_mod_phase", "a": ws.strings(a, n), "b": ws.strings(b, n)})
    elif kind == "ent":
        _, n, seeds, seed = task
        rnd = random.Random("%s-%s" % (seed, seeds[0]))
        for sd in seeds:
            for rows in groups.groups_from_task(sd, n):
                gens = [groups.split(v, n) + (0,) for v in rows]
                s = stab(present(gens, n, rnd), n, rnd)
                lab = lcorbit.orbit_label(gens, n)
                for qb in range(n):
                    ok, r = call(s.is_qubit_entangled, qb)
                    p.evals += 1
                    if not ok:
                        p.violate("is_qubit_entangled raises", "raised %s" % exc_name(r), {"a": ws.strings(gens, n), "qubit": qb, "predicate": "is_qubit_entangled"})
                    p.counters["entangled -> %s" % (r if ok else "exc")] += 1
                if lab:
                    p.distinct_count += 1
                if lab and rnd.random() < (0.2 if n <= 4 else 0.01):
                    object_sequence(p, gens, n, rnd)
                if n <= 4 or rnd.random() < 0.05:
                    ok, r = call(s.expand)
                    p.evals += 1
                    p.counters["expansions"] += 1
                    if not ok:
                        p.violate("expand raises", "raised %s" % exc_name(r), {"a": ws.strings(gens, n), "predicate": "expand"})
                drain(p, None)
        p.sample({"predicate": "is_qubit_entangled", "a": ws.strings(gens, n), "orbit": lab})
    else:
        _, cnt, seed = task
        rnd = random.Random(seed)
        n = 6
        labels = sorted(lcorbit.orbit_members(n))
        for i in range(cnt):
            m = ws.member(labels[(i * 8 + seed) % len(labels)], n, rnd)
            s = stab(m["gens"], n, rnd)
            for qb in range(n):
                ok, r = call(s.is_qubit_entangled, qb)
                p.evals += 1
                p.counters["entangled -> %s" % (r if ok else "exc")] += 1
            if i % 4 == 0:
                call(s.expand)
                p.evals += 1
                p.counters["expansions"] += 1
            p.nontrivial(("ent", n, groups.canon(m["gens"], n)))
            if i % 3 == 0:
                object_sequence(p, m["gens"], n, rnd)
            drain(p, None)
    p.extra["contract_evals"] = +contracts.EVALS
    contracts.EVALS.clear()
    return p


def finalize(total, tier, seed):
    from ..core import Inconclusive
    ev = total.extra.pop("contract_evals", {})
    total.extra["ev_contract_evaluations"] = dict(ev)
    for k in ("is_equivalent_mod_phase", "expand", "is_qubit_entangled"):
        if not ev.get(k):
            raise Inconclusive("contract on %s never evaluated" % k)
    c = total.counters
    for k in ("equivalence -> True", "equivalence -> False", "entangled -> True", "entangled -> False"):
        if not c[k] and not total.violations:
            raise Inconclusive("outcome %r never observed" % k)
    total.extra["ev_exhaustive_part"] = "all ordered pairs of groups n<=3; all (group, qubit) n<=5; expansion of all groups n<=4"


def replay(cj):
    from ..oracle.pauli import parse_pauli
    contracts.install("htstabilizer", which=("predicates",))
    contracts.take()
    p = Partial()
    a = [parse_pauli(s) for s in cj["a"]]
    n = len(cj["a"][0].lstrip("+-"))
    rnd = random.Random(3)
    from htstabilizer.stabilizer import Stabilizer
    sa = Stabilizer(list(cj["a"]))
    pred = cj.get("predicate", "")
    if pred == "sequence" or True:
        object_sequence(p, a, n, rnd)
    if "equivalent" in pred and "b" in cj:
        call(sa.is_equivalent_mod_phase, Stabilizer(list(cj["b"])))
    elif "entangled" in pred:
        call(sa.is_qubit_entangled, cj.get("qubit", 0))
    else:
        call(sa.expand)
    drain(p, None)
    return p.violations
