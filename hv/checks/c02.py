"""C02 - every delivered circuit uses two-qubit gates only on coupled pairs; coupling graphs are the
documented ones.

Monitor: every circuit handed out by any entry point during the workload (preparation, readout,
compressed, MUB, tomography and stabilizer-measurement circuits incl. measured-qubit lists) is
inspected instruction by instruction against the edge table transcribed from the documentation
(hv/oracle/conn.py).
"""
import itertools
import random

import numpy as np

from ..core import Partial, call, exc_name
from ..oracle import conn as oconn, lcorbit
from ..oracle.circ import connectivity_violations, fmt as fmt_gates
from ..oracle.pauli import gates_of, IGNORED
from ..workload import pipeline as wp, stabilizers as ws

PID = "C02"
ASSUMPTIONS = [
    "edge table in hv/oracle/conn.py is a faithful transcription of README / docstrings / property text",
    "members, input circuits and measured-qubit lists beyond N<=4 are sampled",
]


def RULE(tier):
    return ("cases = one delivered circuit: preparation and readout for a random member of every (configuration, "
            "class) pair, compressed circuits of random Clifford circuits with gates on uncoupled pairs, all MUB "
            "circuits, tomography / stabilizer-measurement circuits on N<=8 registers for all ordered qubit lists "
            "(N<=4) and random ordered lists above, plus the 20 coupling graphs; non-trivial = circuit contains at "
            "least one two-qubit gate; distinct = distinct (entry point, n, connectivity, qubit list, instruction list)")


def plan(tier, seed):
    q = tier == "quick"
    t = []
    for n, reps, k in ((2, 4, 1), (3, 4, 1), (4, 3, 2), (5, 2 if q else 10, 8), (6, 1 if q else 8, 48)):
        t += wp.member_tasks(n, reps, k, seed)
    for (n, c) in oconn.CONFIGS:
        t.append(("compress", n, c, 56 if q else 420, seed))
        t.append(("mub", n, c))
    t.append(("graphs",))
    rnd = random.Random(seed)
    for N in range(2, 9):
        for m in range(2, min(N, 6) + 1):
            if N <= 4:
                lists = [list(p) for p in itertools.permutations(range(N), m)]
            else:
                cnt = (6 if m <= 4 else 3) if q else (40 if m <= 4 else 12)
                lists = [list(range(m)), list(range(m))[::-1], [0, N - 1] + list(range(1, m - 1)),
                         [N - 1, 0] + list(range(1, m - 1))]
                while len(lists) < cnt + 4:
                    lists.append(rnd.sample(range(N), m))
            for ch in wp.chunks(lists, max(1, len(lists) // (4 if m >= 5 else 12))):
                t.append(("tomo", N, m, ch, rnd.randrange(1 << 30)))
    random.Random(seed).shuffle(t)
    return t


def _viol(p, key, what, case):
    p.violate(key, what, case)


def _inspect(p, gates, n, conn, entry, case, qubit_map=None):
    p.evals += 1
    p.counters["entry " + entry] += 1
    two = sum(1 for nm, qs in gates if len(qs) >= 2 and nm not in IGNORED)
    if two:
        p.nontrivial((entry, n, conn, tuple(sorted(qubit_map.items())) if qubit_map else None, tuple(gates)))
        p.counters["two-qubit gates inspected"] += two
    bad = connectivity_violations(gates, oconn.edge_set(n, conn), qubit_map)
    if bad:
        k, nm, qs, why = bad[0]
        _viol(p, "uncoupled-gate entry=%s n=%d conn=%s" % (entry, n, conn),
              "%s circuit for %d-%s%s contains %s on qubits %s (%s): [%s]"
              % (entry, n, conn, (" mapped through %s" % sorted(qubit_map.items(), key=lambda kv: kv[1])) if qubit_map else "",
                 nm, list(qs), why, fmt_gates(gates)[:400]), case)
    return not bad


def work_members(task, p):
    from htstabilizer.stabilizer_circuits import get_preparation_circuit, get_readout_circuit
    for case in wp.iter_cases(task):
        ok, st = call(ws.make_stabilizer, case, case["fmt"], random.Random(1))
        if not ok:
            continue
        cj = dict(wp.case_json(case), kind="member")
        for entry, fn in (("prepare", get_preparation_circuit), ("readout", get_readout_circuit)):
            ok, qc = call(fn, st[0], case["conn"])
            if ok:
                _inspect(p, gates_of(qc), case["n"], case["conn"], entry, cj)
            else:
                p.counters[entry + " raised"] += 1
        p.extra.setdefault("labels", set()).add((case["n"], case["conn"], case["label"]))
        if len(p.samples) < 1:
            p.sample(wp.sample_of(case))


def work_compress(task, p):
    from htstabilizer.stabilizer_circuits import compress_preparation_circuit
    _, n, conn, count, seed = task
    rnd = random.Random("%s-%s-%s" % (n, conn, seed))
    for i in range(count):
        mix = ("uniform", "two", "swapchain", "redundant", "subset", "cheap", "cheap")[i % 7]
        g = ws.cheap_uncoupled(n, rnd) if mix == "cheap" else ws.random_gates(n, rnd.choice([3, 8, 20, 60]), rnd, mix)
        ok, qc = call(compress_preparation_circuit, ws.qiskit_circuit(g, n), conn)
        cj = {"kind": "compress", "n": n, "conn": conn, "gates": [[nm, list(qs)] for nm, qs in g]}
        if ok:
            _inspect(p, gates_of(qc), n, conn, "compress", cj)
        else:
            p.counters["compress raised"] += 1
    if len(p.samples) < 2:
        p.sample({"compress input": fmt_gates(g), "connectivity": "%d-%s" % (n, conn)})


def work_mub(task, p):
    from htstabilizer.mub_circuits import get_mub_circuits
    _, n, conn = task
    ok, cs = call(get_mub_circuits, n, conn)
    if not ok:
        p.counters["get_mub_circuits raised"] += 1
        return
    for i, qc in enumerate(cs):
        _inspect(p, gates_of(qc), n, conn, "mub", {"kind": "mub", "n": n, "conn": conn, "index": i})


def work_graphs(task, p):
    from htstabilizer.connectivity_support import get_connectivity_graph, get_available_connectivities
    ok, av = call(get_available_connectivities)
    p.evals += 1
    if not ok or sorted(tuple(a) for a in av) != oconn.CONFIGS:
        _viol(p, "available-connectivities", "get_available_connectivities() = %r, documented: %r" % (av, oconn.CONFIGS),
              {"kind": "graphs"})
    for (n, c) in oconn.CONFIGS:
        p.evals += 1
        ok, g = call(get_connectivity_graph, n, c)
        if not ok:
            _viol(p, "coupling-graph n=%d conn=%s" % (n, c), "get_connectivity_graph raised %s" % exc_name(g), {"kind": "graphs"})
            continue
        A = np.asarray(g.adjacency_matrix)
        got = {frozenset((i, j)) for i in range(A.shape[0]) for j in range(A.shape[1]) if A[i, j] and i != j}
        p.nontrivial(("graph", n, c, tuple(sorted(map(sorted, got)))))
        bad_shape = A.shape != (n, n) or bool(np.any(np.diag(A))) or not np.array_equal(A, A.T)
        if got != oconn.edge_set(n, c) or bad_shape:
            _viol(p, "coupling-graph n=%d conn=%s" % (n, c),
                  "coupling graph reported for %d-%s has edges %s, documented %s"
                  % (n, c, sorted(map(sorted, got)), sorted(map(sorted, oconn.edge_set(n, c)))), {"kind": "graphs"})
        p.counters["coupling graphs compared"] += 1


def _tomo_case(N, m, L, conn, seed, api, idx_type):
    return {"kind": "tomo", "N": N, "m": m, "L": list(L), "conn": conn, "seed": seed, "api": api, "idx_type": idx_type}


def run_tomo_case(p, cj):
    from htstabilizer.tomography import full_state_tomography_circuits, stabilizer_measurement_circuit
    from htstabilizer.stabilizer import Stabilizer
    N, m, L, conn, seed = cj["N"], cj["m"], cj["L"], cj["conn"], cj["seed"]
    rnd = random.Random(seed)
    # preparation circuit deliberately uses gates on arbitrary (uncoupled, unmeasured) pairs
    prep_g = ws.random_gates(N, rnd.choice([0, 3, 10]), rnd, "uniform")
    if cj["idx_type"] == "qubit-objects":
        # the documented alternative: Qubit objects, here taken from a preparation circuit made of several registers
        from qiskit import QuantumCircuit, QuantumRegister
        k = rnd.randrange(1, N) if N > 1 else 1
        regs = [QuantumRegister(k, "data"), QuantumRegister(N - k, "anc")] if N - k > 0 else [QuantumRegister(N, "data")]
        prep = QuantumCircuit(*regs)
        for nm, qs in prep_g:
            getattr(prep, "id" if nm in ("id", "i") else nm)(*qs)
        Larg = [prep.qubits[q] for q in L]
    else:
        prep = ws.qiskit_circuit(prep_g, N)
        Larg = {"list": list(L), "tuple": tuple(L), "numpy": [np.int64(q) for q in L]}[cj["idx_type"]]
    if cj.get("full"):
        Larg = None
    qmap = {q: i for i, q in enumerate(L)}
    if cj["api"] == "tomography":
        ok, circs = call(full_state_tomography_circuits, prep, conn, Larg)
    else:
        label = rnd.choice(sorted(set(lcorbit.orbit_table(m))))
        mem = ws.member(label, m, rnd)
        ok, circs = call(lambda: [stabilizer_measurement_circuit(prep, Stabilizer(ws.strings(mem["gens"], m)), conn, Larg)])
    if not ok:
        p.counters[cj["api"] + " raised " + exc_name(circs)] += 1
        return
    for qc in circs:
        g = gates_of(qc)
        if g[:len(prep_g)] != [(("id" if nm == "i" else nm), qs) for nm, qs in prep_g]:
            p.counters["prefix is not the caller's circuit"] += 1
            suffix = g           # judge the whole thing: the caller's gates are then violations as well
        else:
            suffix = g[len(prep_g):]
        _inspect(p, suffix, m, conn, cj["api"] + ("(all qubits)" if cj.get("full") else "(qubit list)"), cj, qmap)


def work_tomo(task, p):
    _, N, m, lists, seed = task
    rnd = random.Random(seed)
    confs = oconn.configs_for(m)
    for i, L in enumerate(lists):
        conn = confs[(i + seed) % len(confs)]
        for api in ("tomography", "stabilizer-measurement"):
            cj = _tomo_case(N, m, L, conn, rnd.randrange(1 << 30), api, ("list", "tuple", "numpy", "qubit-objects")[i % 4])
            run_tomo_case(p, cj)
        if N == m and L == sorted(L):
            for api in ("tomography", "stabilizer-measurement"):
                cj = dict(_tomo_case(N, m, L, conn, rnd.randrange(1 << 30), api, "list"), full=True)
                run_tomo_case(p, cj)
        p.counters["ordered qubit lists"] += 1
    if len(p.samples) < 1 and lists:
        p.sample({"register": N, "measured qubit list": lists[0], "connectivity": "%d-%s" % (m, confs[seed % len(confs)])})


def work(task):
    p = Partial()
    kind = task[0]
    if kind == "members":
        work_members(task, p)
    elif kind == "compress":
        work_compress(task, p)
    elif kind == "mub":
        work_mub(task, p)
    elif kind == "graphs":
        work_graphs(task, p)
    elif kind == "tomo":
        work_tomo(task, p)
    return p


def finalize(total, tier, seed):
    from ..core import Inconclusive
    want = {(n, c, l) for (n, c) in oconn.CONFIGS for l in set(lcorbit.orbit_table(n))}
    seen = total.extra.pop("labels", set())
    total.extra["ev_config_class_pairs_seen"] = len(seen & want)
    c = total.counters
    for e in ("entry prepare", "entry readout", "entry compress", "entry mub", "entry tomography(qubit list)",
              "entry stabilizer-measurement(qubit list)"):
        if not c[e]:
            raise Inconclusive("no circuit observed for %s" % e)
    if want - seen:
        raise Inconclusive("%d (configuration, class) pairs never visited" % len(want - seen))
    if c["prefix is not the caller's circuit"]:
        raise Inconclusive("measurement circuits do not start with the caller's preparation circuit (%d times): "
                           "cannot separate the readout part" % c["prefix is not the caller's circuit"])
    if c["coupling graphs compared"] != 20:
        raise Inconclusive("only %d coupling graphs compared" % c["coupling graphs compared"])


def replay(cj):
    p = Partial()
    kind = cj.get("kind")
    if kind == "member":
        from htstabilizer.stabilizer_circuits import get_preparation_circuit, get_readout_circuit
        case = wp.case_from_json(cj)
        ok, st = call(ws.make_stabilizer, case, case["fmt"], random.Random(1))
        if ok:
            for entry, fn in (("prepare", get_preparation_circuit), ("readout", get_readout_circuit)):
                ok, qc = call(fn, st[0], case["conn"])
                if ok:
                    _inspect(p, gates_of(qc), case["n"], case["conn"], entry, cj)
    elif kind == "compress":
        from htstabilizer.stabilizer_circuits import compress_preparation_circuit
        g = [(nm, tuple(qs)) for nm, qs in cj["gates"]]
        ok, qc = call(compress_preparation_circuit, ws.qiskit_circuit(g, cj["n"]), cj["conn"])
        if ok:
            _inspect(p, gates_of(qc), cj["n"], cj["conn"], "compress", cj)
    elif kind == "mub":
        work_mub(("mub", cj["n"], cj["conn"]), p)
    elif kind == "graphs":
        work_graphs(("graphs",), p)
    elif kind == "tomo":
        run_tomo_case(p, cj)
    return p.violations
