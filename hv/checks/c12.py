"""C12 - stabilizer measurement reports the true, correctly signed expectation values.

Monitor: stabilizer_measurement_circuit(prep, stabilizer, conn) + StabilizerMeasurementFitter fed with
exact statistics.  Oracle: exactly 2^n entries keyed by the identity and the 2^n - 1 unsigned group
elements (formed by the oracle), every key phase-free, and values by the operator-basis trick of C10:
for rho_k = (I+P_k)/2^n the value under key Q is exactly 1 if Q = P_k or Q = I and 0 otherwise, hence
Tr(rho Q) for every rho by linearity - in particular the signs of the input generators must not leak
into the values.  Dense random states are compared to 1e-9.
"""
import itertools
import random

import numpy as np

from ..core import Partial, call, exc_name, h64
from ..oracle import conn as oconn, dense, groups, lcorbit
from ..oracle.pauli import group_elements, to_str
from ..workload import pipeline as wp, stabilizers as ws, tomo

PID = "C12"
ASSUMPTIONS = ["exact statistics computed by the oracle (tableau / dense simulator)", "fitter linear in the counts (monitored in C10 on the same code path)",
               "stabilizers at n>=4 are class-stratified samples"]
TOL = 1e-9


def RULE(tier):
    return ("cases = (signed stabilizer in some generating set and format, configuration): all groups x all sign vectors for "
            "n<=3 x all configurations, %s members of every (configuration, class) pair for n=4..6; per case the complete "
            "operator basis of 4^n states goes through the real fitter in one vector-valued pass and one dense state (Haar / "
            "mixed / circuit-prepared) in a scalar pass; non-trivial = entangled stabilizer; distinct = distinct (n, connectivity, "
            "format, canonical signed group)" % ("3/2/1 (n=4/5/6)" if tier == "quick" else "12/8/6"))


def plan(tier, seed):
    q = tier == "quick"
    t = wp.enum_tasks(2, 1, "all", "all", seed) + wp.enum_tasks(3, 8, "all", "all", seed)
    for n, reps, k in ((4, 3 if q else 12, 4), (5, 2 if q else 8, 16), (6, 1 if q else 6, 64)):
        t += wp.member_tasks(n, reps, k, seed)
    random.Random(seed).shuffle(t)
    return t


def build_case(p, case, shared_prep=None):
    """Build the measurement circuit and its exact basis statistics now; the fitter is asked later
    (build all circuits, run them, fit afterwards - the usual workflow).  shared_prep: one caller-owned
    preparation circuit (with user metadata) reused for several stabilizers."""
    from qiskit import QuantumCircuit
    from htstabilizer.tomography import stabilizer_measurement_circuit
    n, conn, gens = case["n"], case["conn"], case["gens"]
    cj = wp.case_json(case)
    key = "stabilizer-measurement n=%d conn=%s " % (n, conn)
    ok, st = call(ws.make_stabilizer, case, case["fmt"], random.Random(n))
    if not ok:
        return None
    p.evals += 1
    prep = shared_prep if shared_prep is not None else QuantumCircuit(n)
    md0 = dict(prep.metadata) if isinstance(prep.metadata, dict) else prep.metadata
    ok, qc = call(stabilizer_measurement_circuit, prep, st[0], conn)
    if not ok:
        p.violate(key + "circuit-raises", "stabilizer_measurement_circuit raised %s for %s" % (exc_name(qc), ws.strings(gens, n)), cj)
        return None
    if shared_prep is not None and prep.metadata != md0:
        p.violate(key + "caller-circuit-modified", "stabilizer_measurement_circuit changed the metadata of the caller's preparation circuit: %r -> %r"
                  % (sorted(md0 or {}), sorted(prep.metadata or {})), cj)
    p.counters["circuits built on a shared preparation circuit with user metadata" if shared_prep is not None else "circuits built on a fresh preparation circuit"] += 1
    return {"case": case, "cj": cj, "qc": qc, "counts": tomo.basis_counts(qc, n), "stab": st[0], "key": key}


def run_case(p, case, rng, rnd, dense_too=True, built=None):
    from qiskit import QuantumCircuit
    from htstabilizer.tomography import stabilizer_measurement_circuit, StabilizerMeasurementFitter
    if built is None:
        built = build_case(p, case)
    if built is None:
        return
    n, conn, gens = case["n"], case["conn"], case["gens"]
    cj, key, qc, st = built["cj"], built["key"], built["qc"], (built["stab"],)
    K = 4 ** n
    counts = built["counts"]
    if p.evals % 3 == 0:
        # a Result holding several experiments: the fitter must read the entry named by result_index
        decoy = {k: v[::-1].copy() for k, v in counts.items()}
        idx = p.evals % 4
        lst = [decoy] * idx + [counts] + [decoy] * (3 - idx)
        p.counters["fits through result_index"] += 1
        ok, ev = call(lambda: StabilizerMeasurementFitter(tomo.FakeResult(lst), qc, result_index=idx).expectation_values())
    elif p.evals % 3 == 1:
        # one fitter object asked more than once (expectation values, again, then in the other mode): the LAST answer is judged
        p.counters["fitter objects evaluated repeatedly"] += 1

        def repeated():
            f = StabilizerMeasurementFitter(tomo.FakeResult(counts), qc)
            f.expectation_values()
            f.expectation_values(False)
            return f.expectation_values()
        ok, ev = call(repeated)
    else:
        ok, ev = call(lambda: StabilizerMeasurementFitter(tomo.FakeResult(counts), qc).expectation_values())
    if not ok:
        p.violate(key + "fitter-raises", "expectation_values raised %s: %s" % (exc_name(ev), str(ev)[:160]), cj)
        return
    want_keys = {(e[0], e[1]) for e in group_elements(gens)}
    got_keys = {}
    bad = []
    for P, v in ev.items():
        x, z, ph = tomo.pauli_key(P)
        if ph != 0:
            bad.append(("signed-key", "key %s carries phase %d (keys must be unsigned Paulis)" % (P, ph)))
        if (x, z) in got_keys:
            bad.append(("duplicate-key", "Pauli %s reported twice" % to_str((x, z, 0), n, False)))
        got_keys[(x, z)] = v
    if len(ev) != 2 ** n or set(got_keys) != want_keys:
        bad.append(("key-set", "%d entries; keys missing: %s, unexpected: %s" % (
            len(ev), [to_str(k + (0,), n, False) for k in sorted(want_keys - set(got_keys))][:3],
            [to_str(k + (0,), n, False) for k in sorted(set(got_keys) - want_keys)][:3])))
    for (x, z), v in got_keys.items():
        k = tomo.basis_index(x, z, n)
        want = np.zeros(K)
        if k == 0:
            want[:] = 1
        else:
            want[k] = 1
        got = np.broadcast_to(np.asarray(v, dtype=float), (K,))
        if not np.allclose(got, want, rtol=0, atol=1e-9):
            j = int(np.argmax(np.abs(got - want)))
            bad.append(("wrong-value", "stabilizer %s: for the state (I + %s)/2^n the value reported under key %s is %s, exact value %s"
                        % (ws.strings(gens, n), to_str((j & (2 ** n - 1), j >> n, 0), n, False), to_str((x, z, 0), n, False), got[j], want[j])))
    p.counters["values compared (key x basis state)"] += len(got_keys) * K
    for tag, what in bad[:3]:
        p.violate(key + tag, what, cj)
    if case["label"]:
        p.nontrivial(wp.case_key(case))
    if not dense_too:
        return
    # dense pass (scalar counts): random state, sometimes prepared by an actual circuit
    p.evals += 1
    if rnd.random() < 0.4:
        g = tomo.rand_prep_gates(n, rnd.choice([2, 6, 15]), rnd)
        psi = dense.statevector(g, n)
        rho = np.outer(psi, psi.conj())
        prep = tomo.qiskit_prep(g, n)
        init = np.zeros((2 ** n, 2 ** n), dtype=complex)
        init[0, 0] = 1
    else:
        rho = tomo.rand_state(n, rng, tomo.STATE_KINDS[int(rng.integers(len(tomo.STATE_KINDS)))])
        prep = QuantumCircuit(n)
        init = rho
    ok, qc2 = call(stabilizer_measurement_circuit, prep, st[0], conn)
    if not ok:
        p.violate(key + "circuit-raises", "stabilizer_measurement_circuit raised %s" % exc_name(qc2), cj)
        return
    def dense_fit():
        f = StabilizerMeasurementFitter(tomo.FakeResult(tomo.dense_counts(qc2, init, n)), qc2)
        if n <= 4:
            f.density_matrix()              # asked for the matrix first, then for the values: same object
        return f.expectation_values()
    ok, ev2 = call(dense_fit)
    if not ok:
        p.violate(key + "fitter-raises", "expectation_values raised %s" % exc_name(ev2), cj)
        return
    for P, v in ev2.items():
        x, z, ph = tomo.pauli_key(P)
        want = float(np.real(np.trace(rho @ dense.pauli_mat(x, z, n))))
        if abs(float(v) - want) > TOL:
            p.violate(key + "wrong-value-dense", "stabilizer %s, random state: value under key %s is %.6f, Tr(rho P) = %.6f"
                      % (ws.strings(gens, n), to_str((x, z, 0), n, False), float(v), want), cj)
            break
    p.counters["dense states"] += 1


def work(task):
    p = Partial()
    rnd = random.Random(repr(task[-2:]))
    rng = np.random.default_rng(h64(repr(task[-2:])) % (1 << 30))
    from qiskit import QuantumCircuit
    shared = None
    pending = None
    for i, case in enumerate(wp.iter_cases(task)):
        if shared is None:
            shared = QuantumCircuit(case["n"])
            shared.metadata = {"experiment": "stabilizer-measurement", "owner": "caller"}
        built = build_case(p, case, shared_prep=(shared if i % 2 else None))
        # deferred evaluation: the previous circuit is fitted only after the next one has been built
        if pending is not None:
            run_case(p, pending[0], rng, rnd, dense_too=pending[1], built=pending[2])
        pending = (case, (case["n"] <= 4 or i % 3 == 0), built) if built is not None else None
        p.counters["conf %d-%s" % (case["n"], case["conn"])] += 1
        p.extra.setdefault("labels", set()).add((case["n"], case["conn"], case["label"]))
        if len(p.samples) < 1 and case["label"]:
            p.sample(wp.sample_of(case))
    if pending is not None:
        run_case(p, pending[0], rng, rnd, dense_too=pending[1], built=pending[2])
    return p


def finalize(total, tier, seed):
    from ..core import Inconclusive
    want = {(n, c, l) for (n, c) in oconn.CONFIGS for l in set(lcorbit.orbit_table(n))}
    seen = total.extra.pop("labels", set())
    total.extra["ev_config_class_pairs_seen"] = len(seen & want)
    if want - seen:
        raise Inconclusive("%d (configuration, class) pairs never visited" % len(want - seen))
    if not total.counters["dense states"] and not total.violations:
        raise Inconclusive("dense pass never ran")
    total.extra["ev_exhaustive_part"] = "all groups x all sign vectors x all configurations for n<=3; complete operator basis per case"


def replay(cj):
    p = Partial()
    from qiskit import QuantumCircuit
    case = wp.case_from_json(cj)
    run_case(p, case, np.random.default_rng(1), random.Random(1))
    # history variant: shared preparation circuit with user metadata, a second stabilizer built before fitting the first
    shared = QuantumCircuit(case["n"])
    shared.metadata = {"experiment": "stabilizer-measurement", "owner": "caller"}
    b1 = build_case(p, case, shared_prep=shared)
    other = dict(case, gens=[(0, 1 << i, 0) for i in range(case["n"])], circuit=None, graph_state=False, fmt="str+")
    build_case(p, other, shared_prep=shared)
    if b1 is not None:
        run_case(p, case, np.random.default_rng(1), random.Random(1), dense_too=False, built=b1)
    return p.violations
