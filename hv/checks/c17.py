"""C17 - every lookup-table entry is internally consistent.

Monitor: every line of every stabilizer*-*.txt in the package data directory (advertised and stray)
is read through the real stabilizer_circuit_lookup / StabilizerCircuitInfo / parse_circuit; the
parsed entry is compared with the oracle's own tokenisation of the raw text, simulated, classified
by the LC-orbit oracle and measured (cost, depth, connectivity).
"""
import os
import re

import numpy as np

from ..core import Partial, call, exc_name
from .. import env
from ..oracle import conn as oconn, groups, lcorbit, tabletext
from ..oracle.circ import cost_depth, connectivity_violations, fmt as fmt_gates
from ..oracle.pauli import gates_of, state_of

PID = "C17"
ASSUMPTIONS = [
    "file format as documented in the docstring of circuit_lookup.py",
    "oracle kernel correct (self-tested)",
]
RULE = ("cases = every non-empty line of every stabilizer*-*.txt file in the data directory, read through the real "
        "lookup/parse functions (exhaustive); non-trivial = entry with at least one two-qubit gate; distinct = "
        "distinct (file, line index)")


def data_dir():
    import htstabilizer.data as D
    return os.path.dirname(os.path.abspath(D.__file__))


def plan(tier, seed):
    files = sorted(f for f in os.listdir(os.path.join(env.SRC, "htstabilizer", "data"))
                   if re.match(r"^stabilizer.*\.txt$", f))
    return [("file", f) for f in files]


def work(task):
    from htstabilizer import circuit_lookup, lc_classes
    from htstabilizer.stabilizer import Stabilizer
    from htstabilizer.graph import Graph
    p = Partial()
    fname = task[1]
    m = re.match(r"^stabilizer(\d+)-(.+)\.txt$", fname)
    case0 = {"file": fname}
    if not m:
        p.counters["files not following stabilizer<n>-<connectivity>.txt (not judged)"] += 1
        return p
    n, conn = int(m.group(1)), m.group(2)
    advertised = (n, conn) in oconn.EDGES
    text = open(os.path.join(data_dir(), fname)).read()
    lines = tabletext.nonempty_lines(text)
    K = lcorbit.NUM_ORBITS.get(n)
    p.counters["files advertised" if advertised else "files stray"] += 1
    if K is None:
        p.counters["tables for qubit counts outside 2..6 (not judged)"] += 1
        return p
    if len(lines) != K:
        p.evals += 1
        p.violate("table-line-count %s" % fname, "%s has %d entries, expected one per class id = %d" % (fname, len(lines), K), case0)
    cls = getattr(lc_classes, "LCClass%d" % n)
    labels = p.extra.setdefault("labels", {})
    table = lcorbit.orbit_table(n)
    for i, line in enumerate(lines):
        p.evals += 1
        case = {"file": fname, "line": i}
        key = "table-entry %s line=%d " % (fname, i)
        try:
            gid, cost, depth, ogates = tabletext.parse_stabilizer_line(line, n)
        except tabletext.Malformed as e:
            p.violate(key + "malformed", "%s line %d: %s" % (fname, i, e), case)
            continue
        if cost > 0:
            p.nontrivial((fname, i))
        # the real reader
        ok, info = call(circuit_lookup.stabilizer_circuit_lookup, n, conn, i)
        if not ok:
            p.violate(key + "lookup-raises", "stabilizer_circuit_lookup(%d, %r, %d) raised %s" % (n, conn, i, exc_name(info)), case)
            continue
        ok, qc = call(info.parse_circuit)
        if not ok:
            p.violate(key + "parse-raises", "parse_circuit raised %s on %r" % (exc_name(qc), line), case)
            continue
        lgates = gates_of(qc)
        if (info.graph_id, info.cost, info.depth) != (gid, cost, depth):
            p.violate(key + "lookup-misaligned", "lookup(%d,%r,%d) returned (graph,cost,depth)=%s but line %d of the file says %s"
                      % (n, conn, i, (info.graph_id, info.cost, info.depth), i, (gid, cost, depth)), case)
        if lgates != ogates:
            p.violate(key + "parser-disagrees", "library parse [%s] differs from the documented reading [%s]"
                      % (fmt_gates(lgates), fmt_gates(ogates)), case)
        # state = graph state of gid modulo signs
        got = groups.canon_unsigned(state_of(lgates, n), n)
        want = groups.canon_unsigned(lcorbit.graph_gens(gid, n), n)
        if got != want:
            p.violate(key + "wrong-state", "circuit [%s] does not prepare the graph state of graph id %d (mod signs)"
                      % (fmt_gates(lgates), gid), case)
        # library decode of the graph id agrees with the documented layout
        ok, G = call(Graph.decompress, n, gid)
        if ok:
            A = np.asarray(G.adjacency_matrix)
            rows = [sum((int(A[a, b]) & 1) << b for b in range(n)) for a in range(n)]
            if rows != lcorbit.adj_rows(gid, n):
                p.violate(key + "graph-decode", "Graph.decompress(%d, %d) disagrees with the documented bit layout" % (n, gid), case)
        # class
        lab = table[gid]
        labels.setdefault((n, i), {})[lab] = fname
        ok, cid = call(lambda: lc_classes.determine_lc_class(Stabilizer(Graph.decompress(n, gid))).id())
        if not ok or cid != i:
            p.violate(key + "misfiled", "entry %d of %s has graph %d which the library classifies as %s"
                      % (i, fname, gid, cid if ok else exc_name(cid)), case)
        ok, rg = call(lambda: cls(i).get_graph())
        if ok:
            A = np.asarray(rg.adjacency_matrix)
            rows = [sum((int(A[a, b]) & 1) << b for b in range(n)) for a in range(n)]
            if table[lcorbit.code_of(rows, n)] != lab:
                p.violate(key + "class-mismatch", "graph %d of entry %d is not LC-equivalent to the representative graph of class %d"
                          % (gid, i, i), case)
        # metrics
        c, d = cost_depth(lgates, n)
        if (c, d) != (cost, depth):
            p.violate(key + "cost-depth", "%s entry %d records cost:depth %d:%d but the circuit [%s] has %d:%d"
                      % (fname, i, cost, depth, fmt_gates(lgates), c, d), case)
        if advertised:
            bad = connectivity_violations(lgates, oconn.edge_set(n, conn))
            if bad:
                p.violate(key + "connectivity", "%s entry %d uses %s on uncoupled pair %s" % (fname, i, bad[0][1], list(bad[0][2])), case)
        # ... also after the caller edited the very circuit object it got from parse_circuit()
        call(qc.h, 0)
        call(qc.cz, 0, n - 1)
        call(qc.measure_all)
        ok_r, qc_again = call(lambda: circuit_lookup.stabilizer_circuit_lookup(n, conn, i).parse_circuit())
        if not ok_r or gates_of(qc_again) != ogates:
            p.violate(key + "changed-by-use", "%s entry %d reads [%s] after a caller edited the circuit object returned by parse_circuit(); the file says [%s]"
                      % (fname, i, fmt_gates(gates_of(qc_again))[:200] if ok_r else "?", fmt_gates(ogates)), case)
        # the entry must stay what it is while its circuit is being used: request the entry's own graph state (in a random
        # generating set, random signs) through the public API, edit the delivered circuit the way callers do, read the entry again
        if advertised:
            from htstabilizer.stabilizer_circuits import get_preparation_circuit, compress_preparation_circuit
            import random as _random
            rnd = _random.Random(i * 7919 + n)
            gg = [(x, z, rnd.getrandbits(1)) for x, z, _ in lcorbit.graph_gens(gid, n)]
            if i % 2:
                gg = groups.random_presentation(gg, n, rnd)
            from ..workload import stabilizers as ws
            ok, out = call(lambda: get_preparation_circuit(Stabilizer(ws.strings(gg, n)), conn) if i % 3 else
                           compress_preparation_circuit(info.parse_circuit(), conn))
            if ok:
                call(out.cz, 0, n - 1)
                call(out.h, 0)
                call(out.measure_all)
                ok2, again = call(lambda: circuit_lookup.stabilizer_circuit_lookup(n, conn, i))
                ok3, qc2 = call(again.parse_circuit) if ok2 else (False, None)
                p.counters["entries re-read after a caller edited a circuit delivered for the entry's own graph state"] += 1
                if not ok3 or gates_of(qc2) != ogates or (again.graph_id, again.cost, again.depth) != (gid, cost, depth):
                    p.violate(key + "changed-by-use", "%s entry %d reads [%s] after a caller appended gates to the circuit delivered for the entry's own graph "
                              "state; the file says [%s]" % (fname, i, fmt_gates(gates_of(qc2))[:200] if ok3 else "?", fmt_gates(ogates)), case)
        p.counters["entries " + ("advertised" if advertised else "stray")] += 1
        if len(p.samples) < 1 and cost >= 2:
            p.sample({"file": fname, "line": i, "text": line, "oracle_cost_depth": [c, d], "orbit_label": lab})
    return p


def merge_extra(a, b):
    la = a.setdefault("labels", {})
    for k, v in b.get("labels", {}).items():
        la.setdefault(k, {}).update(v)


def finalize(total, tier, seed):
    from ..core import Inconclusive
    labels = total.extra.pop("labels", {})
    for (n, i), d in sorted(labels.items()):
        if len(d) > 1:
            total.violate("class-label-differs-between-tables n=%d id=%d" % (n, i),
                          "class id %d of n=%d is filed under different LC orbits in different tables: %s" % (i, n, d),
                          {"file": sorted(d.values())[0], "line": i})
    total.extra["exhaustive"] = True
    total.extra["ev_entries_total"] = total.counters["entries advertised"] + total.counters["entries stray"]
    if total.counters["files advertised"] != 20 and not total.violations:
        total.violate("advertised-table-missing", "only %d of the 20 advertised tables exist" % total.counters["files advertised"], {"file": "?"})


def replay(cj):
    p = work(("file", cj["file"]))
    if "line" in cj:
        return [v for v in p.violations if v["case"].get("line") in (cj["line"], None)]
    return p.violations
