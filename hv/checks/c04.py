"""C04 - two-qubit cost and depth of delivered circuits depend only on (connectivity, LC class) and
equal the lookup metadata.

Monitor: an online table keyed by (n, connectivity, oracle orbit label) collects the (cost, depth)
of every circuit delivered by the three APIs (prepare, readout, compress) for members of the orbit
that differ by local Cliffords, signs, generating sets and input formats; each set must be a
singleton and equal the metadata the library reports for the class id it assigns to that input.
"""
import random

from ..core import Partial, call, exc_name
from ..oracle import conn as oconn, lcorbit
from ..oracle.circ import cost_depth
from ..oracle.pauli import gates_of
from ..workload import pipeline as wp, stabilizers as ws

PID = "C04"
ASSUMPTIONS = [
    "oracle LC-orbit labels are a complete LC invariant (Van den Nest et al.; self-tested against brute force over 6^n layers for n<=4)",
    "members per class are sampled",
]


def RULE(tier):
    return ("cases = (member of an LC class, connectivity, API kind in {prepare, readout, compress}); >= %d random "
            "members (random orbit graph x 24^n local Cliffords x signs x generating set x format) for every one of "
            "the 5,962 (configuration, class) pairs, plus request sequences around anchors (tableau neighbours, generator siblings, "
            "one-qubit variants); non-trivial = entangled class; distinct = distinct "
            "(n, connectivity, format, canonical signed group)" % (2 if tier == "quick" else 20))


def plan(tier, seed):
    t = []
    if tier == "quick":
        for n, reps, k in ((2, 6, 1), (3, 6, 1), (4, 4, 4), (5, 3, 16), (6, 2, 64)):
            t += wp.member_tasks(n, reps, k, seed, plain_graph_every=11)
    else:
        for n, reps, k in ((2, 40, 1), (3, 40, 2), (4, 30, 8), (5, 20, 32), (6, 20, 128)):
            t += wp.member_tasks(n, reps, k, seed, plain_graph_every=11)
    for n, cnt in ((4, 8), (5, 8), (6, 16)):
        t += wp.neighbour_tasks(n, cnt if tier == "quick" else cnt * 12, 16, seed, per_anchor=24 if tier == "quick" else 80)
    random.Random(seed).shuffle(t)
    return t


def observe(case):
    """-> list of (api, cost, depth) or ('exc', api, name), lib id, meta"""
    from htstabilizer.stabilizer_circuits import get_preparation_circuit, get_readout_circuit, compress_preparation_circuit
    from htstabilizer.lc_classes import determine_lc_class
    from htstabilizer import circuit_lookup
    n, conn = case["n"], case["conn"]
    ok, st = call(ws.make_stabilizer, case, case["fmt"], random.Random(n))
    if not ok:
        return None
    stab = st[0]
    ok, cid = call(lambda: determine_lc_class(stab).id())
    meta = None
    if ok:
        ok2, info = call(circuit_lookup.stabilizer_circuit_lookup, n, conn, cid)
        if ok2:
            meta = (int(info.cost), int(info.depth))
    else:
        cid = "exc:" + exc_name(cid)
    obs = []
    for api, fn, arg in (("prepare", get_preparation_circuit, stab), ("readout", get_readout_circuit, stab),
                         ("compress", compress_preparation_circuit, None)):
        if api == "compress":
            if not case.get("circuit"):
                continue
            arg = ws.qiskit_circuit(case["circuit"], n)
        ok, qc = call(fn, arg, conn)
        if ok:
            c, d = cost_depth(gates_of(qc), n)
            obs.append((api, c, d))
        else:
            obs.append((api, "exc", exc_name(qc)))
    return obs, cid, meta


def judge(case, res):
    vs = []
    n, conn = case["n"], case["conn"]
    obs, cid, meta = res
    for api, c, d in obs:
        if c == "exc":
            continue        # an exception is C01/C03/C07's business, not a cost statement
        if meta is not None and (c, d) != meta:
            vs.append(("cost-depth-vs-metadata n=%d conn=%s class=%s" % (n, conn, cid),
                       "%s circuit for %s on %s has two-qubit cost/depth %s but lookup metadata of class %s says %s"
                       % (api, ws.strings(case["gens"], n), conn, (c, d), cid, meta)))
    return vs


def work(task):
    p = Partial()
    table = p.extra.setdefault("table", {})
    for case in wp.iter_cases(task):
        res = call(observe, case)
        if not res[0] or res[1] is None:
            p.counters["unobservable cases"] += 1
            continue
        res = res[1]
        obs, cid, meta = res
        p.evals += len(obs)
        for api, c, d in obs:
            p.counters["api " + api + (" raised" if c == "exc" else "")] += 1
        p.counters["conf %d-%s" % (case["n"], case["conn"])] += 1
        if case["label"] != 0:
            p.nontrivial(wp.case_key(case))
        for key, what in judge(case, res):
            p.violate(key, what, wp.case_json(case))
        k = (case["n"], case["conn"], case["label"])
        slot = table.setdefault(k, {})
        for api, c, d in obs:
            if c != "exc":
                slot.setdefault(("cd", c, d), wp.case_json(case))
        slot.setdefault(("id", cid), wp.case_json(case))
        if len(p.samples) < 2:
            p.sample(dict(wp.sample_of(case), observed=[list(o) for o in obs], library_class=cid, metadata=meta))
    return p


def merge_extra(a, b):
    ta = a.setdefault("table", {})
    for k, slot in b.get("table", {}).items():
        s = ta.setdefault(k, {})
        for kk, v in slot.items():
            s.setdefault(kk, v)


def finalize(total, tier, seed):
    from ..core import Inconclusive
    table = total.extra.pop("table", {})
    want = {(n, c, l) for (n, c) in oconn.CONFIGS for l in set(lcorbit.orbit_table(n))}
    total.extra["ev_config_class_pairs_seen"] = len(set(table) & want)
    total.extra["ev_config_class_pairs_total"] = len(want)
    multi = 0
    for (n, conn, label), slot in sorted(table.items()):
        cds = sorted(k[1:] for k in slot if k[0] == "cd")
        ids = sorted((k[1] for k in slot if k[0] == "id"), key=str)
        if len(cds) > 1:
            multi += 1
            wit = slot[("cd",) + cds[-1]]
            total.violate("cost-depth-not-class-invariant n=%d conn=%s orbit=%d" % (n, conn, label),
                          "members of one LC class (oracle orbit %d) on %d-%s were delivered with different two-qubit "
                          "(cost, depth) pairs %s" % (label, n, conn, cds), wit)
        if len(ids) > 1:
            total.violate("class-id-not-orbit-invariant n=%d orbit=%d" % (n, label),
                          "members of one LC orbit received different class ids %s" % ids, slot[("id", ids[-1])])
    total.extra["ev_orbit_slots_with_single_cost_depth"] = len(table) - multi
    if want - set(table):
        raise Inconclusive("%d (configuration, class) pairs never observed" % len(want - set(table)))
    if total.counters["unobservable cases"] > total.evals // 100:
        raise Inconclusive("too many unobservable cases")


def replay(case_j):
    case = wp.case_from_json(case_j)
    res = observe(case)
    if res is None:
        return []
    vs = [{"key": k, "what": w} for k, w in judge(case, res)]
    # class-invariance witnesses: compare against a fresh plain-graph member of the same orbit
    if not vs and case.get("label") is not None:
        n = case["n"]
        rnd = random.Random(5)
        seen = {(c, d) for api, c, d in res[0] if c != "exc"}
        for _ in range(6):
            m = ws.member(case["label"], n, rnd)
            m.update(conn=case["conn"], fmt="str+", label=case["label"])
            r2 = observe(m)
            if r2:
                seen |= {(c, d) for api, c, d in r2[0] if c != "exc"}
        if len(seen) > 1:
            vs.append({"key": "cost-depth-not-class-invariant", "what": "orbit %s delivered with %s" % (case["label"], sorted(seen))})
    return vs
