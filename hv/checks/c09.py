"""C09 - MUB families are complete, index-aligned with their circuits and cost-truthful.

Monitor on get_mubs / get_mub_circuits / get_mub_info (public API, not the file reader) for all 20
configurations; everything is recomputed by the oracle (finite domain, swept completely).
"""
from ..core import Partial, call, exc_name
from ..oracle import conn as oconn, groups
from ..oracle.circ import cost_depth, connectivity_violations, fmt as fmt_gates
from ..oracle.pauli import gates_of, parse_pauli, conj_circuit, group_elements, to_str

PID = "C09"
ASSUMPTIONS = ["oracle kernel correct (self-tested)"]
RULE = ("cases = every (configuration, basis index): the basis (n Pauli strings), its circuit and the info dictionary "
        "as returned by the public API, all 2^n group elements of each basis conjugated through circuit i; exhaustive "
        "over the 20 configurations; non-trivial = basis whose circuit has a two-qubit gate; distinct = (n, conn, index)")


def plan(tier, seed):
    # one task per configuration, so the table of that configuration is cold when the task starts; three call orders
    t = [("mub", n, c, (i + seed) % 3) for i, (n, c) in enumerate(oconn.CONFIGS)]
    if tier == "thorough":
        t += [("mub", n, c, (i + seed + 1) % 3) for i, (n, c) in enumerate(reversed(oconn.CONFIGS))]
    return t


def work(task):
    p, first = judge_family(task)
    if not p.violations and first:
        # the caller now does what callers do with their own copies - sort, measure, delete, overwrite - to the very objects
        # it was handed, and asks again: the family handed out afterwards must be as good as the first one
        _, n, conn, order = task[:4]
        for r in first.values():
            if isinstance(r, list):
                for x in r[:3]:
                    if hasattr(x, "measure_all"):
                        call(x.measure_all)
                        call(x.x, 0)
                    elif isinstance(x, list) and x:
                        x[0] = "I" * n
                r.reverse()
                if r:
                    r.pop()
            elif isinstance(r, dict):
                for k in list(r):
                    r[k] = -1
        p2, _ = judge_family((task[0], n, conn, (order + 1) % 3, "after-mutation"))
        for v in p2.violations:
            v["key"] += " (after the caller edited an earlier result)"
            v["what"] += " - on a re-request after the caller destructively edited the objects returned by the previous calls"
        p.merge(p2)
    return p


def judge_family(task):
    from htstabilizer.mub_circuits import get_mubs, get_mub_circuits, get_mub_info
    from htstabilizer.stabilizer_circuits import get_readout_circuit
    from htstabilizer.stabilizer import Stabilizer
    _, n, conn, order = task[:4]
    p = Partial()
    case = {"n": n, "conn": conn}
    key = "mub n=%d conn=%s " % (n, conn)
    calls = [("mubs", get_mubs), ("circuits", get_mub_circuits), ("info", get_mub_info)]
    if order == 1:
        calls.reverse()                     # info first (header only), then circuits, then bases
    elif order == 2:
        calls = [calls[1], calls[2], calls[0]]
    p.counters["call order %s" % "-".join(nm for nm, _ in calls)] += 1
    if not task[-1] == "after-mutation":
        pass
    res = {}
    for nm, fn in calls:
        ok, r = call(fn, n, conn)
        p.evals += 1
        if not ok:
            p.violate(key + "api-raises", "get_%s(%d, %r) raised %s on an advertised configuration" % (nm, n, conn, exc_name(r)), case)
            return p, None
        res[nm] = r
    mubs, circs, info = res["mubs"], res["circuits"], res["info"]
    want = 2 ** n + 1
    if len(mubs) != want or len(circs) != want:
        p.violate(key + "count", "%d bases and %d circuits, expected %d each" % (len(mubs), len(circs), want), case)
    seen = {}
    costs = []
    depths = []
    for i, (basis, qc) in enumerate(zip(mubs, circs)):
        p.evals += 1
        ci = dict(case, index=i)
        if len(basis) != n or any(len(s.lstrip("+-")) != n for s in basis):
            p.violate(key + "basis-shape index=%d" % i, "basis %d = %r is not n strings of length n" % (i, basis), ci)
            continue
        gens = [parse_pauli(s) for s in basis]
        if not groups.is_valid_stabilizer(gens, n):
            p.violate(key + "basis-invalid index=%d" % i, "basis %d = %r is not commuting and independent" % (i, basis), ci)
            continue
        gates = gates_of(qc)
        els = group_elements(gens)
        for e in els[1:]:
            k = (e[0], e[1])
            if k in seen:
                p.violate(key + "partition index=%d" % i, "Pauli %s lies in the groups of basis %d and basis %d"
                          % (to_str((e[0], e[1], 0), n, False), seen[k], i), ci)
                break
            seen[k] = i
        bad = [e for e in els if conj_circuit(e, gates)[0] != 0]
        if bad:
            p.violate(key + "alignment index=%d" % i, "circuit %d [%s] does not diagonalise element %s of basis %d %r"
                      % (i, fmt_gates(gates), to_str(bad[0], n), i, basis), ci)
        c, d = cost_depth(gates, n)
        costs.append(c)
        depths.append(d)
        if c:
            p.nontrivial((n, conn, i))
        if connectivity_violations(gates, oconn.edge_set(n, conn)):
            p.violate(key + "connectivity index=%d" % i, "MUB circuit %d violates the coupling graph" % i, ci)
        ok, rc = call(lambda: get_readout_circuit(Stabilizer(list(basis)), conn))
        if ok:
            c2, _ = cost_depth(gates_of(rc), n)
            p.counters["mub cost < readout cost" if c < c2 else "mub cost = readout cost" if c == c2 else "mub cost > readout cost"] += 1
            if c > c2:
                p.violate(key + "cost-vs-readout index=%d" % i,
                          "MUB circuit %d needs %d two-qubit gates, the library's readout circuit for the same basis %r only %d"
                          % (i, c, basis, c2), ci)
        else:
            p.counters["readout raised"] += 1
        if i == 1 and len(p.samples) < 1:
            p.sample({"n": n, "connectivity": conn, "index": i, "basis": list(basis), "circuit": fmt_gates(gates), "cost_depth": [c, d]})
    if len(seen) != 4 ** n - 1 and len(mubs) == want:
        p.violate(key + "partition-incomplete", "%d of %d non-identity Paulis covered" % (len(seen), 4 ** n - 1), case)
    p.counters["paulis covered"] += len(seen)
    if costs:
        exp = {"num circuits": len(circs), "max two-qubit count": max(costs), "max two-qubit depth": max(depths),
               "average two-qubit count": sum(costs) / len(costs)}
        for k, v in exp.items():
            got = info.get(k) if isinstance(info, dict) else None
            if got is None or abs(got - v) > 1e-9:
                p.violate(key + "info " + k, "get_mub_info(%d, %r)[%r] = %r, actual value of the returned circuits: %r" % (n, conn, k, got, v), case)
        p.counters["info dictionaries compared"] += 1
    return p, res


def finalize(total, tier, seed):
    from ..core import Inconclusive
    total.extra["exhaustive"] = True
    if total.counters["info dictionaries compared"] < 20 and not total.violations:
        raise Inconclusive("only %d configurations fully observed" % total.counters["info dictionaries compared"])


def replay(cj):
    vs = []
    for order in (0, 1, 2):
        vs += work(("mub", cj["n"], cj["conn"], order)).violations
    return vs
