"""Own tokenizer of the table file formats, written from the format description in the docstring of
circuit_lookup.py.  Strict about the documented vocabulary and about qubit indices."""
import re

TOKEN = re.compile(r"^(h|s|sdg)(\d+)$|^(cx|cz|swap)(\d+),(\d+)$")


class Malformed(ValueError):
    pass


def parse_circuit_text(text, n):
    """-> [(name, qubits)], raising Malformed with the offending token."""
    gates = []
    for tok in text.split(" "):
        if tok == "":
            continue
        m = TOKEN.match(tok)
        if not m:
            raise Malformed(f"token {tok!r} outside the documented vocabulary")
        if m.group(1):
            q = int(m.group(2))
            if q >= n:
                raise Malformed(f"token {tok!r}: qubit index >= {n}")
            gates.append((m.group(1), (q,)))
        else:
            a, b = int(m.group(4)), int(m.group(5))
            if a >= n or b >= n:
                raise Malformed(f"token {tok!r}: qubit index >= {n}")
            if a == b:
                raise Malformed(f"token {tok!r}: identical qubits")
            gates.append((m.group(3), (a, b)))
    return gates


def parse_stabilizer_line(line, n):
    parts = line.split(":")
    if len(parts) != 4:
        raise Malformed(f"expected graph:cost:depth:circuit, got {len(parts)} fields")
    try:
        gid, cost, depth = int(parts[0]), int(parts[1]), int(parts[2])
    except ValueError as e:
        raise Malformed(str(e))
    if not 0 <= gid < (1 << (n * (n - 1) // 2)):
        raise Malformed(f"graph id {gid} out of range")
    return gid, cost, depth, parse_circuit_text(parts[3], n)


def nonempty_lines(text):
    return [l for l in text.split("\n") if len(l.strip()) != 0]


def parse_mub_file(text, n):
    lines = nonempty_lines(text)
    head = lines[0].split(":")
    if len(head) != 3:
        raise Malformed("MUB header must be total:max:maxdepth")
    total, mx, md = (int(v) for v in head)
    entries = []
    for l in lines[1:]:
        parts = l.split(":")
        if len(parts) != 2:
            raise Malformed("MUB line must be paulis:circuit")
        paulis = parts[0].split(",")
        entries.append((paulis, parse_circuit_text(parts[1], n)))
    return (total, mx, md), entries
