"""LC-orbit oracle.

group -> an LC-equivalent graph (graph form) -> orbit label = smallest adjacency code in the orbit of
that graph under local complementation.  By Van den Nest, Dehaene, De Moor (PRA 69, 022316) two
graph states are local-Clifford equivalent iff their graphs are related by local complementations,
and every stabilizer state is LC-equivalent to a graph state, so equal label <=> LC-equivalent.

Adjacency code used here: bit k of the code is edge (i, j), pairs (i, j), i < j, numbered row-major
((0,1), (0,2), ..., (0,n-1), (1,2), ...).  This is the layout documented by the library for its graph
ids; the oracle derives it from that documentation, not from the library's code.
"""
from .groups import inv_gf2
from .pauli import conj_circuit


def pair_index(n):
    idx = {}
    k = 0
    for i in range(n):
        for j in range(i + 1, n):
            idx[(i, j)] = k
            idx[(j, i)] = k
            k += 1
    return idx


def adj_rows(code, n):
    rows = [0] * n
    k = 0
    for i in range(n):
        for j in range(i + 1, n):
            if (code >> k) & 1:
                rows[i] |= 1 << j
                rows[j] |= 1 << i
            k += 1
    return rows


def code_of(rows, n):
    c = 0
    k = 0
    for i in range(n):
        for j in range(i + 1, n):
            if (rows[i] >> j) & 1:
                c |= 1 << k
            k += 1
    return c


def complement(rows, v, n):
    """Local complementation at v on adjacency bit rows."""
    nb = rows[v]
    r2 = list(rows)
    for a in range(n):
        if (nb >> a) & 1:
            r2[a] ^= nb & ~(1 << a)
    return r2


_ORB = {}
NUM_ORBITS = {2: 2, 3: 5, 4: 18, 5: 93, 6: 760}


def orbit_table(n):
    """label[code] = smallest code in the LC orbit of the graph `code`."""
    if n in _ORB:
        return _ORB[n]
    M = 1 << (n * (n - 1) // 2)
    label = [-1] * M
    for c in range(M):
        if label[c] >= 0:
            continue
        stack = [c]
        label[c] = c
        while stack:
            g = stack.pop()
            rows = adj_rows(g, n)
            for v in range(n):
                h = code_of(complement(rows, v, n), n)
                if label[h] < 0:
                    label[h] = c
                    stack.append(h)
    _ORB[n] = label
    return label


def orbit_members(n):
    label = orbit_table(n)
    out = {}
    for c, l in enumerate(label):
        out.setdefault(l, []).append(c)
    return out


def graph_form(gens, n):
    """gens: n generators (x, z[, s]) of a stabilizer group.  Adjacency code of an LC-equivalent
    graph: apply H on a subset T of qubits so that the X block becomes invertible, then
    Gamma = X^-1 Z with the diagonal cleared (clearing = local S gates)."""
    for T in range(1 << n):
        X = []
        Z = []
        for g in gens:
            x, z = g[0], g[1]
            X.append((x & ~T) | (z & T))
            Z.append((z & ~T) | (x & T))
        inv = inv_gf2(X, n)
        if inv is None:
            continue
        G = []
        for i in range(n):
            z = 0
            for k in range(n):
                if (inv[i] >> k) & 1:
                    z ^= Z[k]
            G.append(z & ~(1 << i))
        for i in range(n):
            for j in range(n):
                if ((G[i] >> j) & 1) != ((G[j] >> i) & 1):
                    raise ValueError("not a stabilizer group (Gamma not symmetric)")
        return code_of(G, n)
    raise ValueError("no graph form (generators dependent)")


def orbit_label(gens, n):
    return orbit_table(n)[graph_form(gens, n)]


def graph_gens(code, n):
    """Generators +X_v Z_{N(v)} of the graph state."""
    rows = adj_rows(code, n)
    return [(1 << i, rows[i], 0) for i in range(n)]


# the six single-qubit Cliffords modulo Paulis, as gate sequences (first gate applied first)
LC1 = [[], ["h"], ["s"], ["s", "h"], ["h", "s"], ["h", "s", "h"]]
# all 24 single-qubit Cliffords: a class representative followed by a Pauli
LC24 = [l + p for l in LC1 for p in ([], ["x"], ["y"], ["z"])]


def random_lc_member(label, n, rnd, members=None, paulis=True):
    """Random signed generators of a state in the LC class `label`: random graph of the orbit, random
    single-qubit Clifford (out of 24, so signs vary) on every qubit."""
    members = members or orbit_members(n)[label]
    code = rnd.choice(members)
    gens = graph_gens(code, n)
    pool = LC24 if paulis else LC1
    g = [(nm, (q,)) for q in range(n) for nm in pool[rnd.randrange(len(pool))]]
    return [conj_circuit(p, g) for p in gens], code, g
