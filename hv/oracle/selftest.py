"""Self-test of the oracle kernel against dense linear algebra.  Runs at the start of every check;
a failure makes the check inconclusive (the oracle is broken, nothing can be said about the code)."""
import itertools
import random

import numpy as np

from . import dense, gf2, groups, lcorbit, pauli
from .pauli import conj_gate, mul


def _ctrl(n, a, b, kind):
    d = 2 ** n
    M = np.zeros((d, d), dtype=complex)
    for i in range(d):
        ba = (i >> a) & 1
        bb = (i >> b) & 1
        if kind == "cx":
            M[i ^ (1 << b) if ba else i, i] = 1
        elif kind == "cz":
            M[i, i] = -1 if (ba and bb) else 1
        else:
            M[i ^ (1 << a) ^ (1 << b) if ba != bb else i, i] = 1
    return M


def _embed1(U, q, n):
    m = np.array([[1.0 + 0j]])
    for k in reversed(range(n)):
        m = np.kron(m, U if k == q else dense.I2)
    return m


def run(full=False):
    """Returns (number of cases, list of failures)."""
    fails = []
    tot = 0
    n = 3
    one = {k: dense.ONE[k] for k in ("h", "s", "sdg", "x", "y", "z", "id")}
    two = {k: {(a, b): _ctrl(n, a, b, k) for a, b in itertools.permutations(range(n), 2)}
           for k in ("cx", "cz", "swap")}
    emb = {(k, q): _embed1(U, q, n) for k, U in one.items() for q in range(n)}
    for x in range(8):
        for z in range(8):
            for s in (0, 1):
                P = (x, z, s)
                D = dense.pauli_mat(x, z, n, s)
                for (name, q), UU in emb.items():
                    got = conj_gate(P, name, (q,))
                    tot += 1
                    if not np.allclose(UU @ D @ UU.conj().T, dense.pauli_mat(got[0], got[1], n, got[2])):
                        fails.append(("gate", name, q, P))
                for name, tab in two.items():
                    for (a, b), UU in tab.items():
                        got = conj_gate(P, name, (a, b))
                        tot += 1
                        if not np.allclose(UU @ D @ UU.conj().T, dense.pauli_mat(got[0], got[1], n, got[2])):
                            fails.append(("gate", name, (a, b), P))
    for a in itertools.product(range(4), range(4), (0, 1)):
        for b in itertools.product(range(4), range(4), (0, 1)):
            x, z, q = mul(a, b)
            tot += 1
            if not np.allclose(dense.pauli_mat(*a[:2], 2, a[2]) @ dense.pauli_mat(*b[:2], 2, b[2]),
                               (1j ** q) * dense.pauli_mat(x, z, 2)):
                fails.append(("mul", a, b))
    # dense simulator vs explicit matrices, state_of vs dense eigenvector check
    rnd = random.Random(12345)
    for it in range(20):
        g = []
        for _ in range(12):
            nm = rnd.choice(["h", "s", "sdg", "x", "y", "z", "cx", "cz", "swap", "id"])
            g.append((nm, tuple(rnd.sample(range(n), 2)) if nm in ("cx", "cz", "swap") else (rnd.randrange(n),)))
        psi = dense.statevector(g, n)
        U = np.eye(8, dtype=complex)
        for nm, qs in g:
            U = (two[nm][qs] if nm in two else emb[(nm, qs[0])]) @ U
        tot += 1
        if not np.allclose(U[:, 0], psi) or not np.allclose(dense.unitary(g, n), U):
            fails.append(("dense", g))
        for P in pauli.state_of(g, n):
            tot += 1
            if not np.allclose(dense.pauli_mat(P[0], P[1], n, P[2]) @ psi, psi):
                fails.append(("state_of", g, P))
        # canonical form is presentation independent, sign sensitive
        gens = pauli.state_of(g, n)
        alt = groups.random_presentation(gens, n, rnd)
        tot += 2
        if groups.canon(gens, n) != groups.canon(alt, n):
            fails.append(("canon-presentation", gens, alt))
        flipped = [(alt[0][0], alt[0][1], alt[0][2] ^ 1)] + alt[1:]
        if groups.canon(gens, n) == groups.canon(flipped, n):
            fails.append(("canon-sign", gens))
    # partial trace against explicit sum
    rng = np.random.default_rng(7)
    rho = dense.rand_rho(3, 3, rng)
    for keep in ([0, 1], [1, 0], [2, 0], [1], [0, 1, 2], [2, 1, 0]):
        red = dense.ptrace(rho, keep, 3)
        m = len(keep)
        for x in range(2 ** m):
            for z in range(2 ** m):
                X = sum(((x >> i) & 1) << keep[i] for i in range(m))
                Zb = sum(((z >> i) & 1) << keep[i] for i in range(m))
                tot += 1
                if abs(np.trace(red @ dense.pauli_mat(x, z, m)) - np.trace(rho @ dense.pauli_mat(X, Zb, 3))) > 1e-12:
                    fails.append(("ptrace", keep, x, z))
    # enumeration counts and orbit counts
    for k in (1, 2, 3) + ((4,) if full else ()):
        tot += 1
        if sum(1 for _ in groups.all_groups(k)) != groups.NUM_GROUPS[k]:
            fails.append(("group-count", k))
    for k in (2, 3, 4) + ((5, 6) if full else ()):
        tot += 1
        if len(set(lcorbit.orbit_table(k))) != lcorbit.NUM_ORBITS[k]:
            fails.append(("orbit-count", k))
    # orbit label vs brute force over all 6^n local Clifford layers (n = 3; n = 4 when full)
    for k in (3,) + ((4,) if full else ()):
        reps = sorted(set(lcorbit.orbit_table(k)))
        canon_of = {}
        for r in reps:
            gens = lcorbit.graph_gens(r, k)
            forms = set()
            for combo in itertools.product(range(6), repeat=k):
                g = [(nm, (q,)) for q, c in enumerate(combo) for nm in lcorbit.LC1[c]]
                forms.add(groups.canon_unsigned([pauli.conj_circuit(p, g) for p in gens], k))
            canon_of[r] = forms
        for rows in groups.all_groups(k):
            gens = [groups.split(v, k) for v in rows]
            cu = groups.canon_unsigned(gens, k)
            lab = lcorbit.orbit_label(gens, k)
            tot += 1
            hits = [r for r in reps if cu in canon_of[r]]
            if hits != [lab]:
                fails.append(("orbit-bruteforce", k, rows, lab, hits))
    # gf2
    for it in range(200):
        m, c = rnd.randrange(0, 6), rnd.randrange(0, 6)
        rows = [rnd.getrandbits(c) if c else 0 for _ in range(m)]
        R, piv = gf2.rref(rows, c)
        tot += 1
        if gf2.span([r for r in R]) != gf2.span(rows) or len(piv) != len([r for r in R if r]):
            fails.append(("gf2", rows))
        if len(gf2.kernel_bruteforce(rows, c)) != 2 ** (c - len(piv)):
            fails.append(("gf2-kernel", rows))
    return tot, fails


if __name__ == "__main__":
    import sys
    t, f = run(full="--full" in sys.argv)
    print("cases", t, "failures", len(f))
    for x in f[:10]:
        print(" ", x)
    sys.exit(1 if f else 0)
