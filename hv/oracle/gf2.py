"""GF(2) linear algebra on bit-int rows (bit j = column j), independent of the library."""
import itertools


def to_rows(A):
    return [sum((int(A[i, j]) & 1) << j for j in range(A.shape[1])) for i in range(A.shape[0])]


def rref(rows, ncols):
    rows = list(rows)
    r = 0
    piv = []
    for c in range(ncols):
        p = None
        for k in range(r, len(rows)):
            if (rows[k] >> c) & 1:
                p = k
                break
        if p is None:
            continue
        rows[r], rows[p] = rows[p], rows[r]
        for k in range(len(rows)):
            if k != r and (rows[k] >> c) & 1:
                rows[k] ^= rows[r]
        piv.append(c)
        r += 1
    return rows, piv


def rank(rows, ncols):
    return len(rref(rows, ncols)[1])


def span(rows):
    """Set of all linear combinations (brute force)."""
    out = {0}
    for r in rows:
        out |= {v ^ r for v in out}
    return out


def kernel_bruteforce(rows, ncols):
    """All v in GF(2)^ncols with A v = 0, by enumeration (ncols <= 16)."""
    return {v for v in range(1 << ncols) if all(bin(r & v).count("1") % 2 == 0 for r in rows)}


def in_kernel(rows, v):
    return all(bin(r & v).count("1") % 2 == 0 for r in rows)


def matmul(A_rows, B_rows):
    """A (m x k, rows as bit ints over k columns) times B (k rows over n columns)."""
    out = []
    for a in A_rows:
        v = 0
        k = 0
        while a:
            if a & 1:
                v ^= B_rows[k]
            a >>= 1
            k += 1
        out.append(v)
    return out
