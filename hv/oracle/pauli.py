"""Independent signed Pauli tableau on Python ints.

No htstabilizer and no qiskit.quantum_info imports.  A Pauli is a triple (x, z, s) denoting the
Hermitian operator (-1)^s * prod_q i^{x_q z_q} X^{x_q} Z^{z_q}  (so x_q = z_q = 1 is +Y), bit q of x / z
belongs to qubit q.
"""
import itertools


def pc(v):
    return bin(v).count("1")


def mul(a, b):
    """Product a*b of two Hermitian Paulis.  Returns (x, z, q) meaning i^q * Hermitian(x, z);
    q is even iff a and b commute."""
    x1, z1, s1 = a
    x2, z2, s2 = b
    p = 2 * s1 + pc(x1 & z1) + 2 * s2 + pc(x2 & z2) + 2 * pc(z1 & x2)
    x = x1 ^ x2
    z = z1 ^ z2
    return x, z, (p - pc(x & z)) % 4


def hmul(a, b):
    """Product of two commuting Hermitian Paulis as a Hermitian Pauli (x, z, s)."""
    x, z, q = mul(a, b)
    if q & 1:
        raise ValueError("operators anticommute")
    return x, z, q >> 1


def commute(a, b):
    return (pc(a[0] & b[1]) + pc(a[1] & b[0])) % 2 == 0


ONE_QUBIT = ("id", "i", "h", "s", "sdg", "x", "y", "z")
TWO_QUBIT = ("cx", "cz", "swap")
IGNORED = ("barrier", "measure")
KNOWN = ONE_QUBIT + TWO_QUBIT + IGNORED


def conj_gate(P, name, qs):
    """U P U^dagger for a single gate U."""
    x, z, s = P
    if name in ("id", "i", "barrier", "measure"):
        return P
    q = qs[0]
    b = 1 << q
    xq = (x >> q) & 1
    zq = (z >> q) & 1
    if name == "h":
        s ^= xq & zq
        x = (x & ~b) | (zq << q)
        z = (z & ~b) | (xq << q)
    elif name == "s":      # X->Y, Y->-X
        s ^= xq & zq
        z ^= (xq << q)
    elif name == "sdg":    # X->-Y, Y->X
        s ^= xq & (zq ^ 1)
        z ^= (xq << q)
    elif name == "x":
        s ^= zq
    elif name == "z":
        s ^= xq
    elif name == "y":
        s ^= xq ^ zq
    elif name == "cx":
        c, t = qs
        xc = (x >> c) & 1
        zc = (z >> c) & 1
        xt = (x >> t) & 1
        zt = (z >> t) & 1
        s ^= xc & zt & (xt ^ zc ^ 1)
        x ^= (xc << t)
        z ^= (zt << c)
    elif name == "cz":
        a, c = qs
        xa = (x >> a) & 1
        za = (z >> a) & 1
        xc = (x >> c) & 1
        zc = (z >> c) & 1
        s ^= xa & xc & (za ^ zc)
        z ^= (xc << a) | (xa << c)
    elif name == "swap":
        a, c = qs
        if ((x >> a) ^ (x >> c)) & 1:
            x ^= (1 << a) | (1 << c)
        if ((z >> a) ^ (z >> c)) & 1:
            z ^= (1 << a) | (1 << c)
    else:
        raise UnknownGate(name)
    return (x, z, s)


class UnknownGate(ValueError):
    pass


def conj_circuit(P, gates):
    for name, qs in gates:
        P = conj_gate(P, name, qs)
    return P


def state_of(gates, n):
    """Signed stabilizer generators of gates|0..0>: images of Z_0..Z_{n-1}."""
    return [conj_circuit((0, 1 << i, 0), gates) for i in range(n)]


def inverse_gates(gates):
    inv = {"s": "sdg", "sdg": "s"}
    return [(inv.get(nm, nm), qs) for nm, qs in reversed(gates) if nm not in IGNORED]


def gates_of(qc):
    """Instruction list of a qiskit QuantumCircuit as [(name, (qubit indices...))].  This is the only
    thing the oracle reads from a circuit."""
    out = []
    for inst in qc.data:
        out.append((inst.operation.name, tuple(qc.find_bit(q).index for q in inst.qubits)))
    return out


def measure_map(qc):
    """clbit index -> qubit index for the measure instructions of a circuit."""
    m = {}
    for inst in qc.data:
        if inst.operation.name == "measure":
            m[qc.find_bit(inst.clbits[0]).index] = qc.find_bit(inst.qubits[0]).index
    return m


def parse_pauli(st):
    """Own parser: optional sign, then one character per qubit, first character = qubit 0."""
    s = 0
    if st and st[0] in "+-":
        s = 1 if st[0] == "-" else 0
        st = st[1:]
    x = z = 0
    for i, ch in enumerate(st):
        if ch in "XY":
            x |= 1 << i
        if ch in "ZY":
            z |= 1 << i
    return (x, z, s)


def to_str(P, n, sign=True):
    x, z, s = P
    body = "".join("IXZY"[((x >> i) & 1) | (((z >> i) & 1) << 1)] for i in range(n))
    return ("+-"[s] + body) if sign else body


def weight(P):
    return pc(P[0] | P[1])


def group_elements(gens):
    """All 2^k products of the (commuting) generators, as Hermitian Paulis, Gray-code free and simple."""
    out = [(0, 0, 0)]
    for g in gens:
        out = out + [hmul(e, g) for e in out]
    return out


def pauli_of_qiskit(P):
    """(x, z, phase) of a qiskit Pauli object through its public arrays only."""
    x = sum(int(b) << i for i, b in enumerate(P.x))
    z = sum(int(b) << i for i, b in enumerate(P.z))
    return x, z, int(P.phase)
