"""Circuit metrics on instruction lists [(name, qubits)]."""
from .pauli import KNOWN, IGNORED

DOCUMENTED = ("id", "x", "y", "z", "h", "s", "sdg", "cx", "cz", "swap")


def cost_depth(gates, n):
    """two-qubit cost (#cx + #cz + 3 #swap) and two-qubit depth (ASAP layering over two-qubit gates
    only, a swap occupying three layers)."""
    cost = 0
    lvl = [0] * n
    for name, qs in gates:
        if name in IGNORED:
            continue
        if len(qs) == 2:
            w = 3 if name == "swap" else 1
            cost += w
            d = max(lvl[qs[0]], lvl[qs[1]]) + w
            lvl[qs[0]] = lvl[qs[1]] = d
    return cost, max(lvl) if lvl else 0


def connectivity_violations(gates, edges, qubit_map=None):
    """Instructions that are not allowed on the coupling graph `edges` (set of frozensets).
    qubit_map: dict register qubit -> logical position (for circuits composed onto a qubit list);
    gates touching a qubit outside the map are violations."""
    bad = []
    for k, (name, qs) in enumerate(gates):
        if name in IGNORED:
            continue
        if qubit_map is not None:
            if any(q not in qubit_map for q in qs):
                bad.append((k, name, qs, "outside measured qubits"))
                continue
            qs_l = tuple(qubit_map[q] for q in qs)
        else:
            qs_l = qs
        if len(qs_l) == 1:
            continue
        if len(qs_l) != 2:
            bad.append((k, name, qs, "more than two qubits"))
        elif frozenset(qs_l) not in edges:
            bad.append((k, name, qs, "uncoupled pair"))
    return bad


def unknown_gates(gates):
    return sorted({name for name, qs in gates if name not in KNOWN})


def fmt(gates):
    return " ".join(nm + ",".join(map(str, qs)) for nm, qs in gates)
