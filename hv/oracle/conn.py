"""The 20 advertised (qubit count, connectivity) pairs and their coupling graphs, transcribed by hand
from README.md, the docstrings of get_preparation_circuit / get_connectivity_graph and the text of
property C02 (never computed from the library)."""
import itertools


def _all(n):
    return list(itertools.combinations(range(n), 2))


def _chain(n):
    return [(i, i + 1) for i in range(n - 1)]


EDGES = {
    (2, "all"): [(0, 1)],
    (3, "all"): _all(3), (3, "linear"): _chain(3),
    (4, "all"): _all(4), (4, "linear"): _chain(4), (4, "star"): [(0, 1), (0, 2), (0, 3)],
    (4, "cycle"): _chain(4) + [(0, 3)],
    (5, "all"): _all(5), (5, "linear"): _chain(5), (5, "star"): [(0, 1), (0, 2), (0, 3), (0, 4)],
    (5, "cycle"): _chain(5) + [(0, 4)],
    (5, "T"): [(3, 4), (0, 3), (0, 1), (0, 2)],           # 4-3-0-{1,2}
    (5, "Q"): _chain(5) + [(1, 4)],                        # chain plus (n-1, n-4)
    (6, "all"): _all(6), (6, "linear"): _chain(6), (6, "star"): [(0, k) for k in range(1, 6)],
    (6, "ladder"): _chain(6) + [(0, 5), (1, 4)],            # 6-cycle plus (1,4)
    (6, "E"): [(0, 3), (0, 1), (1, 2), (2, 5), (1, 4)],     # 3-0-1-2-5 plus (1,4)
    (6, "H"): [(0, 1), (1, 2), (3, 4), (4, 5), (1, 4)],     # 0-1-2, 3-4-5 plus (1,4)
    (6, "Q"): _chain(6) + [(2, 5)],                        # chain plus (n-1, n-4)
}
CONFIGS = sorted(EDGES)
NAMES = ["all", "linear", "star", "cycle", "T", "Q", "ladder", "E", "H"]
NUM_CLASSES = {2: 2, 3: 5, 4: 18, 5: 93, 6: 760}


def edge_set(n, conn):
    return set(frozenset(e) for e in EDGES[(n, conn)])


def configs_for(n):
    return [c for (m, c) in CONFIGS if m == n]
