"""Dense numpy simulator for the documented gate set (self-tests and the tomography checks)."""
import numpy as np

I2 = np.eye(2, dtype=complex)
X = np.array([[0, 1], [1, 0]], dtype=complex)
Z = np.diag([1, -1]).astype(complex)
Y = 1j * X @ Z
H = (X + Z) / np.sqrt(2)
S = np.diag([1, 1j])
T = np.diag([1, np.exp(1j * np.pi / 4)])
ONE = {"h": H, "s": S, "sdg": S.conj().T, "x": X, "y": Y, "z": Z, "id": I2, "i": I2, "t": T,
       "tdg": T.conj().T}


def ry(theta):
    c, s = np.cos(theta / 2), np.sin(theta / 2)
    return np.array([[c, -s], [s, c]], dtype=complex)


def apply1(psi, U, q, n):
    psi = psi.reshape([2] * n)          # axis k <-> qubit n-1-k
    ax = n - 1 - q
    psi = np.tensordot(U, psi, axes=([1], [ax]))
    psi = np.moveaxis(psi, 0, ax)
    return psi.reshape(-1)


def apply_gate(psi, name, qs, n, params=()):
    if name in ONE:
        return apply1(psi, ONE[name], qs[0], n)
    if name == "ry":
        return apply1(psi, ry(params[0]), qs[0], n)
    idx = np.arange(len(psi))
    a, b = qs
    ba = (idx >> a) & 1
    bb = (idx >> b) & 1
    if name == "cz":
        return psi * np.where((ba & bb) == 1, -1, 1)
    if name == "cx":                       # a control, b target
        return psi[np.where(ba == 1, idx ^ (1 << b), idx)]
    if name == "swap":
        return psi[np.where(ba != bb, idx ^ (1 << a) ^ (1 << b), idx)]
    raise ValueError(name)


def unitary(gates, n):
    d = 2 ** n
    U = np.zeros((d, d), dtype=complex)
    for k in range(d):
        e = np.zeros(d, dtype=complex)
        e[k] = 1
        for g in gates:
            name, qs = g[0], g[1]
            if name in ("barrier", "measure"):
                continue
            e = apply_gate(e, name, qs, n, g[2] if len(g) > 2 else ())
        U[:, k] = e
    return U


def statevector(gates, n):
    e = np.zeros(2 ** n, dtype=complex)
    e[0] = 1
    for g in gates:
        name, qs = g[0], g[1]
        if name in ("barrier", "measure"):
            continue
        e = apply_gate(e, name, qs, n, g[2] if len(g) > 2 else ())
    return e


def pauli_mat(x, z, n, s=0):
    m = np.array([[1.0 + 0j]])
    for q in reversed(range(n)):
        k = ((x >> q) & 1, (z >> q) & 1)
        m = np.kron(m, {(0, 0): I2, (1, 0): X, (0, 1): Z, (1, 1): Y}[k])
    return (-1) ** s * m


def rand_rho(n, rank, rng):
    d = 2 ** n
    A = rng.normal(size=(d, rank)) + 1j * rng.normal(size=(d, rank))
    r = A @ A.conj().T
    return r / np.trace(r)


def ptrace(rho, keep, N):
    """Reduced state on the ordered list keep: qubit keep[i] becomes qubit i of the result."""
    m = len(keep)
    rest = [q for q in range(N) if q not in keep]
    t = rho.reshape([2] * N + [2] * N)     # row axes for qubits N-1..0, then column axes

    def ax(q):
        return N - 1 - q
    order_row = [ax(q) for q in reversed(keep)] + [ax(q) for q in rest]
    order = order_row + [N + a for a in order_row]
    t = np.transpose(t, order).reshape(2 ** m, 2 ** len(rest), 2 ** m, 2 ** len(rest))
    return np.einsum('aibi->ab', t)
