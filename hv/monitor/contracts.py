"""icontract post-conditions attached from the harness to the real functions of the library
(no source edits).  Conditions *record and return True*: a broken contract is appended to LOG and
the monitored call continues undisturbed, so the same contracts can run in situ inside the
preparation pipeline and under the repository's own tests.  EVALS counts evaluations per contract;
zero evaluations means the monitor was never reached (=> inconclusive, decided by the check).

Domain guards: a contract only judges calls whose arguments lie in the domain of the property
(2-D integer matrices with entries 0/1 for the GF(2) routines, valid stabilizers for the group
predicates); other calls are counted under 'out-of-domain' and not judged.
"""
import collections
import itertools
import sys

import numpy as np

from ..oracle import gf2, groups, lcorbit
from ..oracle.pauli import conj_circuit, gates_of, pc, group_elements

LOG = []            # dicts: contract, what, case
EVALS = collections.Counter()
MAXLOG = 200
_INSTALLED = {}


class ContractBroken(AssertionError):
    pass


def _log(contract, what, case, tag=None):
    """tag: short mechanism name used as the violation key (never data dependent)."""
    if len(LOG) < MAXLOG:
        LOG.append({"contract": contract, "tag": tag or "broken", "what": what, "case": case})


def take():
    out = list(LOG)
    del LOG[:]
    return out


# ------------------------------------------------------------------------------------------------
# GF(2) routines (C18)

def _binary2d(A):
    return (isinstance(A, np.ndarray) and A.ndim == 2 and A.dtype.kind in "iu"
            and (A.size == 0 or (A.min() >= 0 and A.max() <= 1)))


def _mat_case(A):
    return {"shape": list(A.shape), "dtype": str(A.dtype), "rows": gf2.to_rows(A)}


def snap_A(A):
    return np.array(A, copy=True) if isinstance(A, np.ndarray) else A


def _unchanged(name, A, OLD):
    if isinstance(A, np.ndarray) and not (A.shape == OLD.A0.shape and np.array_equal(A, OLD.A0)):
        EVALS[name + " modified its argument (not part of C18's statement; not judged)"] += 1


def rref_post(A, result, OLD):
    if not _binary2d(OLD.A0):
        EVALS["rref out-of-domain"] += 1
        return True
    EVALS["rref"] += 1
    _unchanged("f2.rref", A, OLD)
    try:
        R, piv = result
        m, n = OLD.A0.shape
        wr, wp = gf2.rref(gf2.to_rows(OLD.A0), n)
        if not isinstance(R, np.ndarray) or R.shape != (m, n) or gf2.to_rows(R) != wr or [int(v) for v in piv] != wp \
                or (R.size and (R.min() < 0 or R.max() > 1)):
            _log("f2.rref", "rref returned rows %s pivots %s, unique RREF is rows %s pivots %s"
                 % (gf2.to_rows(R) if isinstance(R, np.ndarray) and R.ndim == 2 else R, list(piv), wr, wp), _mat_case(OLD.A0), "not-the-rref")
    except Exception as e:      # noqa: BLE001
        _log("f2.rref", "malformed result %r (%s)" % (result, e), _mat_case(OLD.A0), "malformed")
    return True


def rank_post(A, result, OLD):
    if not _binary2d(OLD.A0):
        EVALS["rank out-of-domain"] += 1
        return True
    EVALS["rank"] += 1
    _unchanged("f2.rank", A, OLD)
    want = gf2.rank(gf2.to_rows(OLD.A0), OLD.A0.shape[1])
    if result != want:
        _log("f2.rank", "rank returned %r, dimension of the row space is %d" % (result, want), _mat_case(OLD.A0), "wrong-rank")
    return True


def rref_bc_post(A, result, OLD):
    if not _binary2d(OLD.A0):
        EVALS["rref_and_basis_change out-of-domain"] += 1
        return True
    EVALS["rref_and_basis_change"] += 1
    _unchanged("f2.rref_and_basis_change", A, OLD)
    try:
        R, M, Mi = result
        m, n = OLD.A0.shape
        wr, _ = gf2.rref(gf2.to_rows(OLD.A0), n)
        A64 = OLD.A0.astype(np.int64)
        M64, Mi64 = np.asarray(M).astype(np.int64), np.asarray(Mi).astype(np.int64)
        if R.shape != (m, n) or gf2.to_rows(R) != wr:
            _log("f2.rref_and_basis_change", "result is not the RREF (rows %s, expected %s)" % (gf2.to_rows(R), wr), _mat_case(OLD.A0), "not-the-rref")
        elif M64.shape != (m, m) or not np.array_equal((M64 @ A64) % 2, np.asarray(R).astype(np.int64) % 2):
            _log("f2.rref_and_basis_change", "M*A != RREF", _mat_case(OLD.A0), "MA-not-rref")
        elif Mi64.shape != (m, m) or not np.array_equal((M64 @ Mi64) % 2, np.eye(m, dtype=np.int64)):
            _log("f2.rref_and_basis_change", "M*M_inv != I", _mat_case(OLD.A0), "M-Minv-not-identity")
    except Exception as e:      # noqa: BLE001
        _log("f2.rref_and_basis_change", "malformed result (%s: %s)" % (type(e).__name__, e), _mat_case(OLD.A0), "malformed")
    return True


def null_space_post(A, result, OLD):
    if not _binary2d(OLD.A0):
        EVALS["null_space out-of-domain"] += 1
        return True
    EVALS["null_space"] += 1
    _unchanged("f2.null_space", A, OLD)
    m, n = OLD.A0.shape
    rows = gf2.to_rows(OLD.A0)
    k = n - gf2.rank(rows, n)
    N = result
    if k == 0:
        EVALS["null_space trivial kernel"] += 1
    if not isinstance(N, np.ndarray) or N.dtype.kind not in "iub" or N.shape != (k, n):
        _log("f2.null_space", "kernel of a %dx%d matrix of rank %d must be a (%d, %d) integer array, got shape %s dtype %s"
             % (m, n, n - k, k, n, getattr(N, "shape", None), getattr(N, "dtype", None)), _mat_case(OLD.A0),
             "trivial-kernel-not-well-typed" if k == 0 else "kernel-basis-wrong-shape")
        return True
    nrows = gf2.to_rows(N) if k else []
    if N.size and (N.min() < 0 or N.max() > 1):
        _log("f2.null_space", "basis has non-binary entries", _mat_case(OLD.A0), "non-binary")
    elif any(not gf2.in_kernel(rows, v) for v in nrows):
        _log("f2.null_space", "returned vector outside the kernel", _mat_case(OLD.A0), "vector-outside-kernel")
    elif gf2.rank(nrows, n) != k:
        _log("f2.null_space", "returned vectors are dependent", _mat_case(OLD.A0), "dependent-basis")
    elif n <= 12 and gf2.span(nrows) != gf2.kernel_bruteforce(rows, n):
        _log("f2.null_space", "span of the basis differs from the brute-force kernel", _mat_case(OLD.A0), "span-differs")
    return True


def snap_m1(m1):
    return np.array(m1, copy=True) if isinstance(m1, np.ndarray) else m1


def snap_m2(m2):
    return np.array(m2, copy=True) if isinstance(m2, np.ndarray) else m2


def mat_mul_post(m1, m2, result, OLD):
    if not (_binary2d(OLD.m1_0) and _binary2d(OLD.m2_0)):
        EVALS["mat_mul out-of-domain"] += 1
        return True
    EVALS["mat_mul"] += 1
    want = (OLD.m1_0.astype(np.int64) @ OLD.m2_0.astype(np.int64)) % 2
    if not (isinstance(result, np.ndarray) and result.shape == want.shape and np.array_equal(result.astype(np.int64), want)):
        _log("f2.mat_mul", "product differs from the exact product mod 2 (possible int8 wrap-around)",
             {"m1": _mat_case(OLD.m1_0), "m2": _mat_case(OLD.m2_0)}, "wrong-product")
    if not (np.array_equal(m1, OLD.m1_0) and np.array_equal(m2, OLD.m2_0)):
        EVALS["f2.mat_mul modified its argument (not judged)"] += 1
    return True


# ------------------------------------------------------------------------------------------------
# local Clifford layer search (C16)

SIX = {(1, 0, 0, 1): 0, (0, 1, 1, 0): 1, (1, 0, 1, 1): 2, (1, 1, 1, 0): 3, (0, 1, 1, 1): 4, (1, 1, 0, 1): 5}
SIX_LIST = sorted(SIX, key=SIX.get)


def apply_layer(cl, ops, n):
    """cl: list of n 4-tuples (a,b,c,d): x' = a x + b z, z' = c x + d z per qubit."""
    out = []
    for (x, z) in ops:
        x2 = z2 = 0
        for q in range(n):
            a, b, c, d = cl[q]
            xq = (x >> q) & 1
            zq = (z >> q) & 1
            x2 |= ((a & xq) ^ (b & zq)) << q
            z2 |= ((c & xq) ^ (d & zq)) << q
        out.append((x2, z2))
    return out


def in_graph_group(ops, rows, n):
    """z == Gamma x for every operator."""
    for (x, z) in ops:
        g = 0
        for q in range(n):
            if (x >> q) & 1:
                g ^= rows[q]
        if g != z:
            return False
    return True


def layer_exists(ops, rows, n):
    """Brute force over all 6^n layers with bitmask arithmetic over the operator index."""
    m = len(ops)
    if m == 0:
        return tuple([0] * n)
    # X[q][c], Z[q][c]: m-bit masks over operators
    X = [[0] * 6 for _ in range(n)]
    Z = [[0] * 6 for _ in range(n)]
    for q in range(n):
        xq = sum(((x >> q) & 1) << j for j, (x, z) in enumerate(ops))
        zq = sum(((z >> q) & 1) << j for j, (x, z) in enumerate(ops))
        for c, (a, b, cc, d) in enumerate(SIX_LIST):
            X[q][c] = (xq if a else 0) ^ (zq if b else 0)
            Z[q][c] = (xq if cc else 0) ^ (zq if d else 0)
    nb = [[r for r in range(n) if (rows[q] >> r) & 1] for q in range(n)]
    for combo in itertools.product(range(6), repeat=n):
        ok = True
        for q in range(n):
            acc = 0
            for r in nb[q]:
                acc ^= X[r][combo[r]]
            if acc != Z[q][combo[q]]:
                ok = False
                break
        if ok:
            return combo
    return None


def _ops_of(R, S):
    n, m = R.shape
    return [(sum((int(R[q, j]) & 1) << q for q in range(n)), sum((int(S[q, j]) & 1) << q for q in range(n))) for j in range(m)]


def layer_judge(R, S, graph, result, exists=None):
    """Judge a find_local_clifford_layer outcome.  -> list of (what)."""
    out = []
    n = int(graph.adjacency_matrix.shape[0])
    A = np.asarray(graph.adjacency_matrix)
    rows = [sum((int(A[a, b]) & 1) << b for b in range(n)) for a in range(n)]
    ops = _ops_of(np.asarray(R), np.asarray(S))
    if result is not None:
        try:
            blocks = [np.asarray(b) for b in result]
            assert len(blocks) == 4 and all(b.shape == (n, n) for b in blocks)
            for b in blocks:
                if np.any(b - np.diag(np.diag(b))):
                    out.append(("block-not-diagonal", "returned block is not diagonal"))
            cl = [tuple(int(blocks[j][q, q]) for j in range(4)) for q in range(n)]
            if any(c not in SIX for c in cl):
                out.append(("not-a-clifford", "returned layer contains a non-invertible / non-Clifford 2x2 block: %s" % (cl,)))
            elif not in_graph_group(apply_layer(cl, ops, n), rows, n):
                out.append(("unsound-layer", "returned layer %s does not map the operators into the graph state's group" % (cl,)))
        except Exception as e:          # noqa: BLE001
            out.append(("malformed", "malformed result: %s %s" % (type(e).__name__, e)))
    if exists is None and (n <= 4 or (n == 5 and len(ops) >= 1)):
        exists = layer_exists(ops, rows, n) is not None
    if exists is not None:
        if exists and result is None:
            out.append(("incomplete", "a layer exists but the search reported absence"))
        if not exists and result is not None and not out:
            out.append(("unsound-layer", "search returned a layer although brute force over all 6^n layers finds none"))
    return out


def fl_snap_R(R):
    return np.array(R, copy=True)


def fl_snap_S(S):
    return np.array(S, copy=True)


def fl_snap_G(graph):
    return np.array(graph.adjacency_matrix, copy=True)


def find_layer_post(R, S, graph, result, OLD):
    EVALS["find_local_clifford_layer"] += 1
    case = {"R": OLD.R0.tolist(), "S": OLD.S0.tolist(), "graph": OLD.G0.tolist()}
    if not (np.array_equal(R, OLD.R0) and np.array_equal(S, OLD.S0) and np.array_equal(graph.adjacency_matrix, OLD.G0)):
        EVALS["find_local_clifford_layer modified an argument (not judged)"] += 1
    for tag, what in layer_judge(OLD.R0, OLD.S0, graph, result):
        _log("find_local_clifford_layer", what, case, tag)
    return True


def layer_circuit_post(A, result):
    EVALS["local_clifford_layer_to_circuit"] += 1
    try:
        n = A[0].shape[0]
        cl = [tuple(int(A[j][q][q]) for j in range(4)) for q in range(n)]
        gates = gates_of(result)
        for q in range(n):
            for (x, z) in ((1, 0), (0, 1), (1, 1)):
                got = conj_circuit((x << q, z << q, 0), gates)
                a, b, c, d = cl[q]
                want = (((a & x) ^ (b & z)) << q, ((c & x) ^ (d & z)) << q)
                if (got[0], got[1]) != want:
                    _log("local_clifford_layer_to_circuit", "gate sequence %s does not implement block %s on qubit %d" % (gates, cl[q], q),
                         {"layer": [list(c) for c in cl]}, "gates-do-not-implement-block")
                    return True
        if any(len(qs) != 1 for nm, qs in gates):
            _log("local_clifford_layer_to_circuit", "layer circuit contains a multi-qubit gate", {"layer": [list(c) for c in cl]}, "multi-qubit-gate")
    except Exception as e:          # noqa: BLE001
        _log("local_clifford_layer_to_circuit", "malformed result: %s" % e, {})
    return True


# ------------------------------------------------------------------------------------------------
# group predicates (C15)

def _gens_of_stab(s):
    R, S = np.asarray(s.R), np.asarray(s.S)
    n = int(s.num_qubits)
    ph = np.asarray(s.phases)
    return [(sum((int(R[q, j]) & 1) << q for q in range(n)), sum((int(S[q, j]) & 1) << q for q in range(n)), int(ph[j]) & 1)
            for j in range(R.shape[1])], n


def equiv_post(self, other, result):
    try:
        a, n = _gens_of_stab(self)
        b, m = _gens_of_stab(other)
    except Exception:               # noqa: BLE001
        return True
    if not (groups.is_valid_stabilizer(a, n) and groups.is_valid_stabilizer(b, m)):
        EVALS["is_equivalent_mod_phase out-of-domain"] += 1
        return True
    EVALS["is_equivalent_mod_phase"] += 1
    want = n == m and groups.canon_unsigned(a, n) == groups.canon_unsigned(b, n)
    if bool(result) != want:
        from ..oracle.pauli import to_str
        _log("is_equivalent_mod_phase", "returned %r, groups equal up to signs: %r" % (result, want),
             {"a": [to_str(g, n) for g in a], "b": [to_str(g, m) for g in b]}, "wrong-answer")
    return True


def expand_post(self, result):
    try:
        a, n = _gens_of_stab(self)
    except Exception:               # noqa: BLE001
        return True
    if not groups.is_valid_stabilizer(a, n):
        EVALS["expand out-of-domain"] += 1
        return True
    EVALS["expand"] += 1
    from ..oracle.pauli import to_str
    case = {"a": [to_str(g, n) for g in a]}
    try:
        X, Z = result
        X, Z = np.asarray(X), np.asarray(Z)
        if X.shape != (n, 1 << n) or Z.shape != (n, 1 << n):
            _log("expand", "shapes %s %s, expected (%d, %d)" % (X.shape, Z.shape, n, 1 << n), case)
            return True
        cols = [(sum((int(X[q, i]) & 1) << q for q in range(n)), sum((int(Z[q, i]) & 1) << q for q in range(n))) for i in range(1 << n)]
        want = sorted((e[0], e[1]) for e in group_elements(a))
        if sorted(cols) != want:
            _log("expand", "columns are not the 2^n distinct group elements (distinct returned: %d)" % len(set(cols)), case, "not-the-group")
    except Exception as e:          # noqa: BLE001
        _log("expand", "malformed result: %s" % e, case)
    return True


def entangled_post(self, qubit, result):
    try:
        a, n = _gens_of_stab(self)
    except Exception:               # noqa: BLE001
        return True
    if not groups.is_valid_stabilizer(a, n) or not (isinstance(qubit, (int, np.integer)) and 0 <= qubit < n):
        EVALS["is_qubit_entangled out-of-domain"] += 1
        return True
    EVALS["is_qubit_entangled"] += 1
    b = 1 << int(qubit)
    product = any((e[0] | e[1]) == b for e in group_elements(a))
    if bool(result) != (not product):
        from ..oracle.pauli import to_str
        _log("is_qubit_entangled", "returned %r for qubit %d, but the group %s a weight-one element on that qubit"
             % (result, qubit, "contains" if product else "does not contain"), {"a": [to_str(g, n) for g in a], "qubit": int(qubit)}, "wrong-answer")
    return True


# ------------------------------------------------------------------------------------------------
# installation

def _rebind(root, old, new):
    """Replace every module attribute of the package that *is* `old` by `new`."""
    count = 0
    for name, mod in list(sys.modules.items()):
        if mod is None or not (name == root or name.startswith(root + ".")):
            continue
        for attr, val in list(vars(mod).items()):
            if val is old:
                setattr(mod, attr, new)
                count += 1
    return count


def install(root="htstabilizer", which=("f2", "layer", "predicates")):
    """Attach the contracts.  Idempotent per root."""
    import importlib
    import icontract
    if root in _INSTALLED:
        return _INSTALLED[root]
    f2 = importlib.import_module(root + ".f2_algebra")
    fl = importlib.import_module(root + ".find_local_clifford_layer")
    st = importlib.import_module(root + ".stabilizer")
    for m in ("stabilizer_circuits", "lc_classes", "rotate_stabilizer_into_state", "tomography", "mub_circuits"):
        try:
            importlib.import_module(root + "." + m)
        except Exception:           # noqa: BLE001
            pass
    bound = {}

    def wrap(mod, name, post, snaps=()):
        old = getattr(mod, name)
        new = icontract.ensure(post, error=ContractBroken)(old)
        for fn, nm in snaps:
            new = icontract.snapshot(fn, name=nm)(new)
        bound[mod.__name__ + "." + name] = _rebind(root, old, new)

    if "f2" in which:
        wrap(f2, "rref", rref_post, [(snap_A, "A0")])
        wrap(f2, "rank", rank_post, [(snap_A, "A0")])
        wrap(f2, "rref_and_basis_change", rref_bc_post, [(snap_A, "A0")])
        wrap(f2, "null_space", null_space_post, [(snap_A, "A0")])
        wrap(f2, "mat_mul", mat_mul_post, [(snap_m1, "m1_0"), (snap_m2, "m2_0")])
    if "layer" in which:
        wrap(fl, "find_local_clifford_layer", find_layer_post, [(fl_snap_R, "R0"), (fl_snap_S, "S0"), (fl_snap_G, "G0")])
        wrap(fl, "local_clifford_layer_to_circuit", layer_circuit_post)
    if "predicates" in which:
        cls = st.Stabilizer
        for name, post in (("is_equivalent_mod_phase", equiv_post), ("expand", expand_post), ("is_qubit_entangled", entangled_post)):
            old = cls.__dict__[name]
            setattr(cls, name, icontract.ensure(post, error=ContractBroken)(old))
            bound["Stabilizer." + name] = 1
    _INSTALLED[root] = bound
    return bound


# ------------------------------------------------------------------------------------------------
# the repository's own tests as an extra workload under the contracts

def run_repo_tests(which, test_files, timeout=1500):
    """Run the named test files of the repository with the contracts attached (see pytest_plugin.py).
    -> (log entries, evaluation counters, pytest exit status) or None when it could not be run."""
    import json
    import os
    import subprocess
    import tempfile
    from .. import env
    fd, path = tempfile.mkstemp(prefix="hvcontracts_", suffix=".json")
    os.close(fd)
    try:
        e = dict(os.environ, PYTHONPATH=env.VERIF + os.pathsep + os.environ.get("PYTHONPATH", ""), HV_CONTRACT_LOG=path,
                 HV_CONTRACTS=",".join(which), PYTHONDONTWRITEBYTECODE="1")
        subprocess.run([env.PY, "-m", "pytest", "-q", "-p", "no:cacheprovider", "-p", "hv.monitor.pytest_plugin", "-x", "--timeout=1200"] +
                       [os.path.join("tests", t) for t in test_files], cwd=env.REPO, env=e, capture_output=True, text=True, timeout=timeout)
        if os.path.getsize(path) == 0:
            return None
        d = json.load(open(path))
        return d["log"], d["evals"], d["exitstatus"]
    except Exception:           # noqa: BLE001
        return None
    finally:
        try:
            os.remove(path)
        except OSError:
            pass
