"""pytest plugin: run the repository's own tests with the icontract contracts attached
(`pytest -p hv.monitor.pytest_plugin`, PYTHONPATH=<verif>, cwd=<repo>).  The repository's tests import
`src.htstabilizer`, so the contracts are installed under that root name.  The log of broken contracts and
the evaluation counters are written to $HV_CONTRACT_LOG at session end."""
import json
import os


def pytest_sessionstart(session):
    from hv import env
    env.ensure_deps()
    from hv.monitor import contracts
    import importlib
    which = tuple(os.environ.get("HV_CONTRACTS", "f2,layer,predicates").split(","))
    for root in ("src.htstabilizer", "htstabilizer"):
        try:
            importlib.import_module(root)
        except Exception:       # noqa: BLE001
            continue
        contracts.install(root, which=which)


def pytest_sessionfinish(session, exitstatus):
    from hv.monitor import contracts
    out = os.environ.get("HV_CONTRACT_LOG")
    if out:
        with open(out, "w") as f:
            json.dump({"log": contracts.LOG[:200], "evals": dict(contracts.EVALS), "exitstatus": int(exitstatus)}, f, default=str)
