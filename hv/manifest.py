"""Regenerates /verif/MANIFEST.json from the table below (python -m hv.manifest)."""
import json
import os

from . import env

BASELINE_OFF = ("cd /repo && env -u HTSTABILIZER_VERIF /venv/bin/python -m pytest -ra -q -p no:cacheprovider "
                "--timeout=900 --continue-on-collection-errors")

# pid -> (technique, level text, level note, design ref)
CHECKS = {}
PENDING = {}


def check(pid, technique, text, note, ref):
    CHECKS[pid] = (technique, text, note, ref)


from .manifest_table import register   # noqa: E402
register(check, PENDING)


def build():
    checks = []
    for pid in sorted(CHECKS):
        technique, text, note, ref = CHECKS[pid]
        checks.append({
            "property_id": pid,
            "quick_cmd": "./check %s quick" % pid,
            "thorough_cmd": "./check %s thorough" % pid,
            "evidence_file": "/verif/evidence/%s.json" % pid,
            "replay_cmd_template": "./check %s --replay {path}" % pid,
            "engine": "hv",
            "level_claimed": {"category": "exploration", "text": text, "design_ref": ref},
            "level_note": note,
            "technique": technique,
        })
    return {
        "version": 1,
        "setup_cmd": ("/venv/bin/python -m pip install -q --no-index --find-links /opt/veriftools/wheels "
                      "--target /verif/.deps --upgrade icontract deal jsonschema"),
        "hooks": {
            "guard": "HTSTABILIZER_VERIF",
            "enable": ("no source hooks: all monitors (boundary wrappers, icontract contracts, sys.monitoring "
                       "coverage tap, audit hook) are attached from the harness at run time; checks import "
                       "/repo/src directly from the working tree"),
            "baseline_off_cmd": BASELINE_OFF,
            "source_commits": [],
            "add_only": True,
        },
        "engines": [{
            "name": "hv", "path": "/verif/hv", "serves_properties": sorted(CHECKS),
            "kind_free_text": ("runtime monitoring: the real library is driven by exhaustive / stratified / hostile "
                               "workloads in 16 worker processes; monitors at the public API boundary and icontract "
                               "contracts on internal functions compare every execution with an independent oracle "
                               "kernel (signed Pauli tableau, LC-orbit labels, GF(2), dense simulator)"),
        }],
        "checks": checks,
        "not_applicable": [{"property_id": p, "reason": r} for p, r in sorted(PENDING.items()) if p not in CHECKS],
        "notes": ("Verdicts are three-valued: exit 0 held on everything observed, exit 1 + VIOLATION line, exit 2 + "
                  "INCONCLUSIVE line (self-test failed, monitor never reached, package not importable). "
                  "HV_REPO=<dir> points the checks at another checkout (used by the mutation drills). "
                  "Known findings: /verif/KNOWN_FINDINGS.txt."),
    }


if __name__ == "__main__":
    doc = build()
    path = os.path.join(env.VERIF, "MANIFEST.json")
    with open(path, "w") as f:
        json.dump(doc, f, indent=1)
        f.write("\n")
    try:
        env.ensure_deps()
        import jsonschema
        jsonschema.validate(doc, json.load(open("/root/.vp/MANIFEST.schema.json")))
        print("MANIFEST.json valid:", len(doc["checks"]), "checks,", len(doc["not_applicable"]), "not applicable")
    except ImportError:
        print("written (jsonschema unavailable)")
