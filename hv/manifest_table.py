"""Table of registered checks (kept separate so it is easy to extend)."""

TB = ("trusted base: the oracle kernel in hv/oracle (self-tested against dense linear algebra at the start of every "
      "run), CPython, numpy and qiskit's QuantumCircuit container (instruction list only)")


def register(check, pending):
    check("C01", "runtime monitoring: boundary monitor on get_preparation_circuit + independent signed-tableau oracle",
          "Every preparation call of an exhaustive (all groups x all signs, n<=3; thorough n<=4 and all groups of n=5) "
          "plus class-stratified random workload is observed and the returned instruction list is simulated by an "
          "independent signed Pauli tableau; held means: exact signed state on every execution observed, all 5,962 "
          "(configuration, class) pairs and all input formats visited. Sampled (not decided) for n=6 groups, "
          "generating sets and signs beyond the exhaustive part.",
          TB, "DESIGN.md section 4 C01")
    for p in ["C02", "C03", "C04", "C05", "C06", "C07", "C08", "C09", "C10", "C11", "C12", "C13", "C14", "C15",
              "C16", "C17", "C18", "C19"]:
        pending[p] = "check under construction in this session (design in DESIGN.md section 4); not claimed yet"
