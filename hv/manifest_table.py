"""Table of registered checks (kept separate so it is easy to extend)."""

TB = ("trusted base: the oracle kernel in hv/oracle (self-tested against dense linear algebra at the start of every "
      "run), CPython, numpy and qiskit's QuantumCircuit container (instruction list only)")
RM = "runtime monitoring: "


def register(check, pending):
    check("C01", RM + "boundary monitor on get_preparation_circuit + independent signed-tableau oracle",
          "Every preparation call of an exhaustive (all groups x all signs, n<=3; thorough n<=4 and all 75,735 groups of n=5) "
          "plus class-stratified random workload is observed and the returned instruction list is simulated by an "
          "independent signed Pauli tableau; held means: exact signed state on every execution observed, all 5,962 "
          "(configuration, class) pairs and all input formats visited. Sampled (not decided) for n=6 groups, "
          "generating sets and signs beyond the exhaustive part. A retention monitor re-inspects every returned circuit after later "
          "calls, and request sequences around anchors (tableau neighbours, generator siblings, one-qubit variants) probe for answers "
          "reused from a nearby input.",
          TB, "DESIGN.md sections 4 C01, 7.2, 8")
    check("C02", RM + "instruction-by-instruction inspection of every delivered circuit against a transcribed edge table",
          "Every circuit handed out by any entry point during the workload (preparation, readout, compressed, all MUB circuits, "
          "tomography / stabilizer-measurement circuits on registers up to 8 qubits with ordered qubit lists) is inspected; the 20 "
          "coupling graphs are compared with the documented ones. Exhaustive over table classes, MUB circuits and ordered lists for "
          "N<=4; sampled over members, input circuits and larger registers.",
          TB + "; the edge table hv/oracle/conn.py transcribed from README/docstrings", "DESIGN.md section 4 C02")
    check("C03", RM + "boundary monitor on get_readout_circuit, all 2^n group elements conjugated by the tableau oracle",
          "For every observed readout call all group elements (formed by the oracle) are conjugated through the returned circuit, the "
          "call is repeated with other sign patterns of the same generators (identical instruction list required) and the inverse "
          "circuit is checked to prepare the group up to signs. Exhaustive over groups n<=4 (thorough n<=5), class-stratified above; "
          "retention monitor and request sequences around anchors as in C01.",
          TB, "DESIGN.md section 4 C03")
    check("C04", RM + "online table keyed by (connectivity, oracle LC-orbit label) over delivered (cost, depth) pairs",
          "Members of every (configuration, class) pair that differ by local Cliffords, signs, generating sets and formats go through "
          "prepare, readout and compress; the set of observed (cost, depth) pairs per orbit must be a singleton and equal the lookup "
          "metadata of the class id the library assigns. All 5,962 pairs observed; members sampled; each member is requested on all its "
          "configurations consecutively and anchors are followed by their tableau neighbours.",
          TB + "; LC-orbit labels decide LC equivalence (Van den Nest et al.)", "DESIGN.md section 4 C04")
    check("C05", RM + "monitored competitor workload: BFS witness circuits (exhaustive modulo local Cliffords) through the real compress/prepare APIs",
          "A breadth-first search over the LC-class transition graph (<=760 nodes) gives, for each of the 5,962 (configuration, class) "
          "pairs, the minimum two-qubit count over ALL competitor circuits and an explicit witness; the witness and members of the class "
          "go through the real APIs and the delivered cost must equal the optimum. 570 six-qubit table entries are genuinely suboptimal "
          "(open known findings, keyed by entry, delivered cost and optimum); anything else is a violation. Thorough adds 20,000 "
          "random-walk competitors per configuration.",
          TB + "; factorisation of competitors into CZ gates and local Clifford layers; LC-orbit labels", "DESIGN.md section 4 C05")
    check("C06", RM + "relation monitor {(library class id, oracle LC-orbit label)} over exhaustively enumerated groups",
          "determine_lc_class is observed on every stabilizer group of n<=5 (quick) / n<=6 (thorough: all 4,922,775 six-qubit groups) plus "
          "re-presentations; the id<->orbit relation must be a bijection onto 0..K-1, invariant under generators and signs; class "
          "round trip and representative graphs checked, also as call sequences on one class object. Thorough decides the property for "
          "the inputs quantifier except 'all generating sets', which is sampled.",
          TB + "; Van den Nest-Dehaene-De Moor theorem (label cross-checked by brute force for n<=4)", "DESIGN.md section 4 C06")
    check("C07", RM + "boundary monitor on compress_preparation_circuit (input snapshot before/after, output simulated)",
          "Random circuits over the documented gate set (lengths 0..2000, eight gate mixes incl. id/y/swap/redundant pairs/uncoupled "
          "two-qubit gates) on all 20 configurations: output must prepare the same signed state, obey the coupling graph, cost the "
          "class's metadata cost (and be constant per orbit), input object untouched. Plus a circuit for a member of every (configuration, "
          "class) pair, cheap inputs on uncoupled pairs, one circuit object reused with in-place caller edits, and a retention monitor on "
          "returned circuits. Sampled (unbounded domain).",
          TB, "DESIGN.md section 4 C07")
    check("C08", RM + "outcome-class monitor (returned vs exception) with tableau judgement of every returned circuit",
          "Arbitrary Pauli sets (all 2^8 x 4 for n=2, 30k/all 2^18 for n=3 validate, sampled hostile sets n=3..6) through validate / prepare / "
          "readout; a returned circuit must be right for the given operators, invalid sets must not be prepared, valid ones must be "
          "served; complete (n in 0..8) x 17 names x 11 entry points grid.",
          TB, "DESIGN.md section 4 C08")
    check("C09", RM + "exhaustive recomputation of everything get_mubs/get_mub_circuits/get_mub_info return",
          "Finite domain swept completely through the public API: counts, validity, Pauli partition, index alignment (all 2^n elements "
          "of basis i through circuit i), info dictionary numbers, MUB cost <= readout cost, connectivity.",
          TB, "DESIGN.md section 4 C09")
    check("C10", RM + "real fitter fed with exact statistics through a duck-typed result; operator-basis spanning set + monitored linearity",
          "For every configuration the complete operator basis of 4^n states goes through the real FullStateTomographyFitter in one "
          "vector-valued pass (exact integers); linearity of the real code path is probed with scalar counts; dense random states "
          "(incl. circuit-prepared ones, caller circuits with their own metadata, different shot totals per circuit) are reconstructed to "
          "1e-9. Exactness on the spanning set + linearity => all density matrices.",
          TB + "; dense simulator", "DESIGN.md section 4 C10")
    check("C11", RM + "both measurement APIs with ordered measured-qubit lists, fitter outputs in both modes vs ordered partial trace",
          "Registers N<=8, ordered lists exhaustive for small N, both APIs, both output modes; values decided on the operator basis of the "
          "register and on entangled random states; keys in full-register mode must be the reduced keys placed on the listed qubits.",
          TB + "; dense simulator / partial trace", "DESIGN.md section 4 C11")
    check("C12", RM + "real StabilizerMeasurementFitter on exact statistics: key set and values on the complete operator basis",
          "Exactly 2^n phase-free keys = identity + unsigned group elements; values exact on all 4^n basis states per case (so input signs "
          "cannot leak) and on dense states; circuits are built on shared caller circuits with metadata and fitted only after the next "
          "one was built; result_index with decoy experiments. Exhaustive over groups x signs x configurations for n<=3, class-stratified above.",
          TB + "; dense simulator", "DESIGN.md section 4 C12")
    check("C13", RM + "offline checker over recorded API sessions vs answers of a pristine forked process and of another interpreter",
          "Sessions in fresh interpreters (three hash seeds) interleave calls of 18 entry points, caller-side mutation of everything "
          "returned earlier, legal in-place edits of the caller's own argument objects followed by a call with the very same objects, "
          "and re-requests; every result must equal a pristine process's answer (built and edited alike), arguments (incl. metadata of caller "
          "circuits) must be unchanged, untouched earlier results must stay unchanged (retention monitor); an audit hook records "
          "cold/warm cache. Sampled histories.",
          TB + "; fork-before-first-call = fresh interpreter (cross-checked against a separately started interpreter)", "DESIGN.md section 4 C13")
    check("C14", RM + "constructor / export monitor vs independent Pauli parser and circuit simulator",
          "All five input formats, export round trip and mirror image, Graph.to_circuit for all graphs on <=5 vertices (sampled/all on 6) "
          "incl. edgeless ones, Stabilizer(circuit) for random Clifford circuits, and the preparation API across formats.",
          TB, "DESIGN.md section 4 C14")
    check("C15", RM + "icontract post-conditions on is_equivalent_mod_phase / expand / is_qubit_entangled",
          "Contracts attached to the real methods compare every evaluation with canonical forms / brute-force group expansion; all ordered "
          "pairs of groups n<=3, all (group, qubit) n<=5, structured near-miss pairs n=4..6, call sequences on one object interleaved with "
          "classification / readout requests, retention of the arrays returned by expand().",
          TB + "; icontract", "DESIGN.md section 4 C15")
    check("C16", RM + "outcome judge on find_local_clifford_layer / local_clifford_layer_to_circuit vs brute force over 6^n layers",
          "Full stabilizers against graphs of their own and other orbits and partial operator sets; existence by brute force (n<=5, n=6 "
          "partial) or orbit labels (n=6 full); returned layers checked for Clifford-ness, effect and gate sequence; exceptions are "
          "violations. Exhaustive groups x graphs n<=3 (thorough n<=4).",
          TB + "; icontract (in-situ contracts)", "DESIGN.md section 4 C16")
    check("C17", RM + "every table line read through the real lookup/parser and compared with an independent tokenizer, simulator and orbit oracle",
          "All 6,722 entries of all stabilizer*-*.txt files (advertised and stray): line count, alignment, vocabulary, state, class, cost, "
          "depth, connectivity. Exhaustive.",
          TB, "DESIGN.md section 4 C17")
    check("C18", RM + "icontract post-conditions (with snapshots) on rref / rank / rref_and_basis_change / null_space / mat_mul",
          "Every binary matrix of every shape with m*n<=12, thousands of random/structured matrices up to 36x24 in 4 integer dtypes and the "
          "in-situ calls of the pipeline; outputs compared with a bit-int RREF and brute-force span/kernel enumeration.",
          TB + "; icontract", "DESIGN.md section 4 C18")
    check("C19", RM + "exhaustive codec monitor vs independent adjacency-bitmask implementation",
          "All graphs on 2..6 vertices x all vertices, all class ids, all grouping indices, all pair indices (exhaustive), plus random "
          "operation sequences on one Graph object mirrored on a bit-mask reference model.",
          TB, "DESIGN.md section 4 C19")
