"""Entry point of ./check.  (Running `python -m hv.core` directly would execute core.py as `__main__` while the
check modules import it as `hv.core` - two module objects, two `Inconclusive` classes; this wrapper avoids that.)"""
import sys

from .core import main

if __name__ == "__main__":
    sys.exit(main())
