"""Environment of a check run: where the repository is, seeds, tiers, third-party deps.

Everything is resolved relative to this checkout (VERIF = parent of the hv package), so the same
code runs from /verif and from a `vp run` snapshot.
"""
import os
import subprocess
import sys
import warnings

VERIF = os.path.dirname(os.path.dirname(os.path.abspath(__file__)))
REPO = os.path.abspath(os.environ.get("HV_REPO", "/repo"))
SRC = os.path.join(REPO, "src")
DEPS = os.path.join(VERIF, ".deps")
WHEELS = "/opt/veriftools/wheels"
PY = "/venv/bin/python"

SEED = int(os.environ.get("VERIF_SEED", "0") or 0)
WORKERS = int(os.environ.get("HV_WORKERS", "16"))

# never leave byte code in the repository tree
sys.dont_write_bytecode = True
os.environ.setdefault("PYTHONDONTWRITEBYTECODE", "1")
warnings.filterwarnings("ignore")


def ensure_deps():
    """icontract / deal / jsonschema live in the git-ignored VERIF/.deps; restores contain committed
    files only, so every check re-creates the directory from the offline wheelhouse when missing."""
    marker = os.path.join(DEPS, "icontract")
    if not os.path.isdir(marker) or not os.path.isdir(os.path.join(DEPS, "jsonschema")):
        os.makedirs(DEPS, exist_ok=True)
        subprocess.run(
            [PY, "-m", "pip", "install", "-q", "--no-index", "--find-links", WHEELS, "--target", DEPS,
             "--upgrade", "icontract", "deal", "jsonschema"],
            check=True, stdout=subprocess.DEVNULL, stderr=subprocess.DEVNULL,
            env={**os.environ, "PIP_NO_INDEX": "1", "PYTHONDONTWRITEBYTECODE": ""})
    if DEPS not in sys.path:
        sys.path.append(DEPS)


def use_repo():
    """Make `import htstabilizer` resolve to REPO/src (the current working tree) and verify it."""
    if SRC not in sys.path:
        sys.path.insert(0, SRC)
    import htstabilizer
    where = os.path.dirname(os.path.abspath(htstabilizer.__file__))
    want = os.path.join(SRC, "htstabilizer")
    if os.path.realpath(where) != os.path.realpath(want):
        raise ImportError(f"htstabilizer imported from {where}, expected {want}")
    return htstabilizer


def repo_head():
    try:
        return subprocess.run(["git", "-C", REPO, "rev-parse", "--short", "HEAD"], capture_output=True,
                              text=True, timeout=10).stdout.strip()
    except Exception:
        return "?"
