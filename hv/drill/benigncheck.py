"""Run every quick check against a behaviour-preserving change: all must stay silent (exit 0).

  python -m hv.drill.benigncheck <patch.diff> <name> [--checks C01,C02]
Result appended to /verif/hv/drill/benign_results.json."""
import json
import os
import shutil
import subprocess
import sys
import time

from .. import env


def sh(cmd, **kw):
    return subprocess.run(cmd, capture_output=True, text=True, **kw)


def main(argv):
    patch, name = argv[0], argv[1]
    checks = ["C%02d" % i for i in range(1, 20)]
    for i, a in enumerate(argv):
        if a == "--checks":
            checks = argv[i + 1].split(",")
    wt = "/tmp/vb_" + name
    sh(["git", "-C", env.REPO, "worktree", "remove", "--force", wt])
    if sh(["git", "-C", env.REPO, "worktree", "add", "--detach", wt, "HEAD"]).returncode:
        print("cannot create worktree")
        return 2
    res = {"name": name, "patch": patch, "checks": {}}
    try:
        r = sh(["git", "-C", wt, "apply", "--whitespace=nowarn", patch])
        if r.returncode:
            print("patch does not apply:", r.stderr[:300])
            return 2
        res["files_changed"] = sh(["git", "-C", wt, "diff", "--stat"]).stdout.strip().split("\n")
        for c in checks:
            t = time.time()
            r = sh([os.path.join(env.VERIF, "check"), c, "quick"], env=dict(os.environ, HV_REPO=wt))
            lines = [l for l in r.stdout.split("\n") if l.startswith(("VIOLATION", "  what", "INCONCLUSIVE"))][:3]
            res["checks"][c] = {"exit": r.returncode, "wall_s": round(time.time() - t, 1), "report": [l[:300] for l in lines]}
            print("%s vs %s: exit %d %s" % (name, c, r.returncode, (lines[1] if len(lines) > 1 else lines[0] if lines else "")[:200]), flush=True)
    finally:
        sh(["git", "-C", env.REPO, "worktree", "remove", "--force", wt])
        shutil.rmtree(wt, ignore_errors=True)
    out = os.path.join(env.VERIF, "hv", "drill", "benign_results.json")
    allr = json.load(open(out)) if os.path.exists(out) else []
    allr = [x for x in allr if x["name"] != name] + [res]
    json.dump(allr, open(out, "w"), indent=1)
    alarms = [c for c, v in res["checks"].items() if v["exit"] != 0]
    print("%s: %d checks, alarms/inconclusive: %s" % (name, len(res["checks"]), alarms))
    return 1 if alarms else 0


if __name__ == "__main__":
    sys.exit(main(sys.argv[1:]))
