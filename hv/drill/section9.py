"""Section 9 of DESIGN.md from evidence/<id>.json (quick) and evidence/thorough/<id>.json.
  python -m hv.drill.section9 [--write]"""
import json
import os
import sys

from .. import env

HEAD = "## 9. Runs on the unchanged tree"
RULE = "-" * 99


def load(path):
    try:
        return json.load(open(path))
    except Exception:       # noqa: BLE001
        return None


def section():
    ev = os.path.join(env.VERIF, "evidence")
    rows = []
    tq = tt = 0.0
    heads = set()
    for i in range(1, 20):
        pid = "C%02d" % i
        q, t = load(os.path.join(ev, pid + ".json")), load(os.path.join(ev, "thorough", pid + ".json"))

        def cell(d):
            if not d:
                return "-"
            c = d["coverage"]
            heads.add(c.get("repo_head"))
            return "%s / %s / %.0f s" % (format(c["evaluations"], ","), format(c["distinct_nontrivial"], ","), d["wall_s"])
        if q and q.get("tier") != "quick":
            q = None
        tq += q["wall_s"] if q else 0
        tt += t["wall_s"] if t else 0
        rows.append("| %s | %s | %s |" % (pid, cell(q), cell(t)))
    out = [RULE, "", HEAD, "",
           "All numbers below are read from the evidence files written by runs of the registered commands in /verif against /repo (HEAD "
           "`%s`, i.e. the pinned tree plus the six `fix:` commits), 16 worker processes. `evidence/<id>.json` holds the quick tier, "
           "`evidence/thorough/<id>.json` the thorough tier. Every run exited 0 (C05 with its 570 KNOWN-FINDING lines)." % "/".join(sorted(h for h in heads if h)), "",
           "| check | quick: monitored executions / distinct non-trivial / wall | thorough: monitored executions / distinct non-trivial / wall |",
           "|---|---|---|"] + rows + ["",
           "Sum of wall times: quick %.0f min, thorough %.1f h." % (tq / 60, tt / 3600), "",
           "Further runs on the unchanged tree, all silent: quick tier with `VERIF_SEED` = 1, 2, 3 and `PYTHONHASHSEED` = 1, 2, 3 (57 runs), "
           "`vp check` requests on a fresh copy of the sandbox with `VERIF_SEED=1` (nothing needed attention), three earlier complete thorough "
           "passes at intermediate commits, 152 quick runs against the eight behaviour-preserving changes of 8.5. The repository's own 152 "
           "baseline tests pass with the six `fix:` commits (junit comparison against BASELINE.json: 152/152, no failure outside the always-fail "
           "list); the repository's fast test files also run silently *under the contracts* (thorough tiers of C15, C16, C18).", "",
           "Under load (background sweeps, sub-agents running the test suite) individual quick checks took up to 3x longer; no verdict depends on "
           "wall-clock time.", ""]
    return "\n".join(out)


def main():
    sec = section()
    if "--write" in sys.argv:
        path = os.path.join(env.VERIF, "DESIGN.md")
        s = open(path).read()
        a = s.index(HEAD)
        a = s.rfind(RULE, 0, a)
        open(path, "w").write(s[:a].rstrip("\n") + "\n\n" + sec)
        print("DESIGN.md section 9 rewritten")
    else:
        print(sec)


if __name__ == "__main__":
    main()
