"""Confirm a seeded change delivered by a sub-agent and run checks against it.

  python -m hv.drill.seedcheck <seed_dir> <name> <property> [--checks C01,C04] [--skip-tests] [--tier quick]

Steps (all in a scratch git worktree of /repo outside /repo and /verif, removed afterwards):
  1. demo.py exits 0 on the pristine tree, 2. patch applies, 3. demo.py exits non-zero with the patch,
  4. the repository's test suite still passes its 152 baseline tests, 5. the named checks are run with
  HV_REPO pointing at the patched worktree.  Results -> /verif/seeded/<name>/{patch.diff,demo.py,notes.md,meta.json}.
"""
import json
import os
import shutil
import subprocess
import sys
import time
import xml.etree.ElementTree as ET

from .. import env


def sh(cmd, **kw):
    return subprocess.run(cmd, capture_output=True, text=True, **kw)


def run_suite(wt):
    xml = os.path.join(wt, "junit.xml")
    r = sh([env.PY, "-m", "pytest", "-q", "-p", "no:cacheprovider", "-n", "8", "--timeout=900", "--continue-on-collection-errors",
            "--junitxml=" + xml], cwd=wt)
    passed = set()
    failed = set()
    if os.path.exists(xml):
        for tc in ET.parse(xml).getroot().iter("testcase"):
            name = "%s::%s" % (tc.get("classname"), tc.get("name"))
            if any(ch.tag in ("failure", "error") for ch in tc):
                failed.add(name)
            elif not any(ch.tag == "skipped" for ch in tc):
                passed.add(name)
    base = json.load(open("/root/.vp/BASELINE.json"))
    stable = set(base["stable_pass"])
    missing = sorted(stable - passed)
    return {"baseline_passing_tests": len(stable), "still_passing": len(stable & passed), "now_failing_or_missing": missing[:10],
            "failed_outside_always_fail": sorted(failed - set(base["always_fail"]))[:10]}


def main(argv):
    seed_dir, name, prop = argv[0], argv[1], argv[2]
    checks = [prop]
    tier = "quick"
    for i, a in enumerate(argv):
        if a == "--checks":
            checks = argv[i + 1].split(",")
        if a == "--tier":
            tier = argv[i + 1]
    wt = "/tmp/vt_" + name
    sh(["git", "-C", env.REPO, "worktree", "remove", "--force", wt])
    r = sh(["git", "-C", env.REPO, "worktree", "add", "--detach", wt, "HEAD"])
    if r.returncode:
        print("cannot create worktree:", r.stderr)
        return 2
    meta = {"name": name, "property": prop, "source": "sub-agent (given only the property text and a scratch worktree)", "repo_head": env.repo_head()}
    try:
        demo = os.path.join(seed_dir, "demo.py")
        e = dict(os.environ, PYTHONPATH=os.path.join(wt, "src"), PYTHONDONTWRITEBYTECODE="1")
        r0 = sh([env.PY, demo], env=e, cwd=wt, timeout=1800)
        meta["demo_exit_on_pristine_tree"] = r0.returncode
        ra = sh(["git", "-C", wt, "apply", "--whitespace=nowarn", os.path.join(seed_dir, "patch.diff")])
        meta["patch_applies"] = ra.returncode == 0
        if ra.returncode:
            print("patch does not apply:", ra.stderr[:500])
            return 2
        meta["files_changed"] = sh(["git", "-C", wt, "diff", "--stat"]).stdout.strip().split("\n")
        r1 = sh([env.PY, demo], env=e, cwd=wt, timeout=1800)
        meta["demo_exit_with_change"] = r1.returncode
        meta["demo_output_with_change"] = (r1.stdout + r1.stderr)[-600:]
        if "--skip-tests" not in argv:
            t = time.time()
            meta["test_suite_with_change"] = run_suite(wt)
            meta["test_suite_with_change"]["wall_s"] = round(time.time() - t)
            os.remove(os.path.join(wt, "junit.xml"))
        meta["checks"] = {}
        for c in checks:
            t = time.time()
            r = sh([os.path.join(env.VERIF, "check"), c, tier], env=dict(os.environ, HV_REPO=wt))
            fired = r.returncode == 1 and ("VIOLATION property=%s" % c) in r.stdout
            what = [l.strip() for l in r.stdout.split("\n") if l.startswith("  what:")][:2]
            inc = [l for l in r.stdout.split("\n") if l.startswith("INCONCLUSIVE")][:1]
            meta["checks"][c if tier == "quick" else c + ":" + tier] = {"tier": tier, "caught": fired, "exit": r.returncode, "wall_s": round(time.time() - t, 1),
                                 "first_reports": [w[:400] for w in what] or [x[:400] for x in inc]}
            print("%s vs %s: %s (exit %d, %.0fs) %s" % (name, c, "CAUGHT" if fired else "MISSED", r.returncode, time.time() - t, (what or inc or [""])[0][:200]), flush=True)
        ok = meta["demo_exit_on_pristine_tree"] == 0 and meta["demo_exit_with_change"] != 0 and \
            ("test_suite_with_change" not in meta or meta["test_suite_with_change"]["still_passing"] == meta["test_suite_with_change"]["baseline_passing_tests"])
        meta["confirmed"] = bool(ok)
        out = os.path.join(env.VERIF, "seeded", name)
        os.makedirs(out, exist_ok=True)
        for f in ("patch.diff", "demo.py", "notes.md"):
            if os.path.exists(os.path.join(seed_dir, f)):
                shutil.copy(os.path.join(seed_dir, f), os.path.join(out, f))
        old = {}
        mp = os.path.join(out, "meta.json")
        if os.path.exists(mp):
            old = json.load(open(mp))
            for k in ("needs_to_manifest", "test_suite_with_change"):
                if k in old and k not in meta:
                    meta[k] = old[k]
            oc = old.get("checks", {})
            oc.update(meta["checks"])
            meta["checks"] = oc
        with open(mp, "w") as f:
            json.dump(meta, f, indent=1)
            f.write("\n")
        print("%s confirmed=%s demo %s->%s tests %s" % (name, meta["confirmed"], meta["demo_exit_on_pristine_tree"], meta["demo_exit_with_change"],
                                                    meta.get("test_suite_with_change", {}).get("still_passing", "skipped")), flush=True)
    finally:
        sh(["git", "-C", env.REPO, "worktree", "remove", "--force", wt])
        shutil.rmtree(wt, ignore_errors=True)
    return 0


if __name__ == "__main__":
    sys.exit(main(sys.argv[1:]))
