"""Mutation drill: apply each property-breaking edit of mutants.py to a scratch copy of the repository
(outside /repo and /verif), run the named quick checks with HV_REPO pointing at the copy, require a
VIOLATION, delete the copy.   python -m hv.drill.drill [mutant ids | property ids]"""
import json
import os
import shutil
import subprocess
import sys
import tempfile
import time

from .. import env
from .mutants import M


def special_data_edit(mid, lines, k):
    """Data mutants whose edit is computed rather than a textual replacement."""
    def fields(l):
        return l.split(":")
    if mid == "c04-depth-column":
        f = fields(lines[k]); f[2] = str(int(f[2]) + 1); lines[k] = ":".join(f)
    elif mid == "c05-longer-line":
        f = fields(lines[k]); f[1] = str(int(f[1]) + 2); f[2] = str(int(f[2]) + 2); f[3] = f[3].rstrip() + " cz0,1 cz0,1"; lines[k] = ":".join(f)
    elif mid == "c05-product-class-cz":
        f = fields(lines[k]); f[1] = "1"; f[2] = "1"; f[3] = "cz0,1 " + f[3]; lines[k] = ":".join(f)
    elif mid == "c09-lines-swapped":
        a, b = lines[k].split(":"), lines[k + 1].split(":")
        lines[k], lines[k + 1] = a[0] + ":" + b[1], b[0] + ":" + a[1]
    elif mid == "c09-header":
        f = fields(lines[k]); f[1] = str(int(f[1]) + 1); lines[k] = ":".join(f)
    elif mid == "c17-hs-token":
        f = fields(lines[k]); f[3] = "hs3 " + f[3]; lines[k] = ":".join(f)
    elif mid == "c17-lines-exchanged":
        lines[k], lines[k + 1] = lines[k + 1], lines[k]
    elif mid == "c17-duplicate-line":
        lines.insert(k + 1, lines[k])
    else:
        raise KeyError(mid)


def apply(mut, root):
    path = os.path.join(root, "src", "htstabilizer", mut["file"])
    text = open(path).read()
    if mut["line"] is not None:
        lines = text.split("\n")
        k = mut["line"]
        if mut["old"] is None:
            special_data_edit(mut["id"], lines, k)
        else:
            if mut["old"] not in lines[k]:
                raise RuntimeError("%s: %r not in line %d: %r" % (mut["id"], mut["old"], k, lines[k][:80]))
            lines[k] = lines[k].replace(mut["old"], mut["new"], 1)
        text = "\n".join(lines)
    else:
        if text.count(mut["old"]) != 1:
            raise RuntimeError("%s: old text occurs %d times in %s" % (mut["id"], text.count(mut["old"]), mut["file"]))
        text = text.replace(mut["old"], mut["new"])
        if mut["id"] == "c02-tomo-sorted-list":
            parts = text.split("qubits=measured_qubits)  # type: ignore")
            assert len(parts) == 3, len(parts)
            text = parts[0] + "qubits=measured_qubits)  # type: ignore" + parts[1] + "qubits=compose_onto)  # type: ignore" + parts[2]
        if mut["id"] == "c13-graph-cached":
            text = text.replace("def get_connectivity_graph(", "_all_cache = {}\n\n\ndef get_connectivity_graph(", 1)
    open(path, "w").write(text)


def main(argv):
    sel = [a for a in argv if not a.startswith("-")]
    muts = [m for m in M if not sel or m["id"] in sel or any(c in sel for c in m["checks"])]
    results = []
    for mut in muts:
        root = tempfile.mkdtemp(prefix="hvdrill_", dir="/tmp")
        try:
            shutil.copytree(os.path.join(env.REPO, "src"), os.path.join(root, "src"), ignore=shutil.ignore_patterns("__pycache__"))
            try:
                apply(mut, root)
            except Exception as e:      # noqa: BLE001
                print("%-28s NOT-APPLIED %s" % (mut["id"], e), flush=True)
                continue
            imp = subprocess.run([env.PY, "-c", "import sys; sys.path.insert(0, %r); import htstabilizer.stabilizer_circuits, htstabilizer.tomography, htstabilizer.mub_circuits" % os.path.join(root, "src")],
                                 capture_output=True, text=True)
            row = {"mutant": mut["id"], "imports": imp.returncode == 0, "checks": {}}
            for c in mut["checks"] if "--all-checks" not in argv else ["C%02d" % i for i in range(1, 20)]:
                t = time.time()
                r = subprocess.run([os.path.join(env.VERIF, "check"), c, "quick"], env=dict(os.environ, HV_REPO=root), capture_output=True, text=True)
                fired = r.returncode == 1 and "VIOLATION property=%s" % c in r.stdout
                first = next((l for l in r.stdout.split("\n") if l.startswith("  what:")), "")[:160]
                incon = next((l for l in r.stdout.split("\n") if l.startswith("INCONCLUSIVE")), "")[:160]
                row["checks"][c] = {"fired": fired, "rc": r.returncode, "s": round(time.time() - t, 1), "what": first or incon}
            results.append(row)
            primary = mut["checks"][0]
            print("%-28s %s" % (mut["id"], "  ".join("%s:%s(%ss)" % (c, "CAUGHT" if v["fired"] else "MISSED rc=%d" % v["rc"], v["s"]) for c, v in row["checks"].items())), flush=True)
            for c, v in row["checks"].items():
                if not v["fired"]:
                    print("      %s %s" % (c, v["what"]), flush=True)
        finally:
            shutil.rmtree(root, ignore_errors=True)
    out = os.path.join(env.VERIF, "hv", "drill", "last_results.json")
    with open(out, "w") as f:
        json.dump(results, f, indent=1)
    missed = [(r["mutant"], c) for r in results for c, v in r["checks"].items() if not v["fired"] and c == next(m for m in M if m["id"] == r["mutant"])["checks"][0]]
    print("mutants: %d, primary check missed: %d %s" % (len(results), len(missed), missed))
    return 1 if missed else 0


if __name__ == "__main__":
    sys.exit(main(sys.argv[1:]))
