"""Property-breaking edits used to validate the monitors (python -m hv.drill.drill [ids...]).
Each mutant: id, the checks that must fire, file (relative to src/htstabilizer), old text, new text.
For data files `line` selects a 0-based line and old/new are applied to that line only."""

M = []


def m(id, checks, file, old, new, line=None, note=""):
    M.append({"id": id, "checks": checks, "file": file, "old": old, "new": new, "line": line, "note": note})


SC = "stabilizer_circuits.py"
# ---- C01
m("c01-no-sign-repair", ["C01"], SC, "    circuit = _get_preparation_circuit_modulo_phase(stabilizer, connectivity)\n    return rotate_stabilizer_into_state(circuit, stabilizer, inplace=True)",
  "    circuit = _get_preparation_circuit_modulo_phase(stabilizer, connectivity)\n    return circuit", note="sign repair dropped")
m("c01-sign-layer-z", ["C01"], "rotate_stabilizer_into_state.py", "            pauli_layer.x(index)", "            pauli_layer.z(index)")
m("c01-hs-sh-swapped", ["C01", "C16"], "find_local_clifford_layer.py", "        elif c == [1, 1, 1, 0]:  # HS\n            qc.s(i)\n            qc.h(i)", "        elif c == [1, 1, 1, 0]:  # HS\n            qc.h(i)\n            qc.s(i)")
m("c01-matrix-phases-ignored", ["C01", "C14"], "stabilizer.py", "                self.phases = data[2].astype(np.int8)", "                self.phases = np.zeros(self.num_qubits, dtype=np.int8)")
m("c01-qiskit-convention", ["C01"], "rotate_stabilizer_into_state.py", "target.to_list(qiskit_convention=True)", "target.to_list(qiskit_convention=False)")
# ---- C02
m("c02-q-edge", ["C02"], "connectivity_support.py", "graph.add_edge(num_qubits - 1, num_qubits - 4)", "graph.add_edge(num_qubits - 1, num_qubits - 3)")
m("c02-star-centre", ["C02"], "connectivity_support.py", "        return Graph.star(num_qubits)", "        return Graph.star(num_qubits, 1)")
m("c02-tomo-sorted-list", ["C02", "C11"], "tomography.py", "    readout_circuits = get_mub_circuits(num_qubits, connectivity)\n", "    readout_circuits = get_mub_circuits(num_qubits, connectivity)\n    compose_onto = None if measured_qubits is None else tuple(sorted(measured_qubits))\n", note="(with the next edit) readout composed onto the sorted list instead of the given order")
m("c02-table-gate-on-non-edge", ["C02", "C17"], "data/stabilizer5-linear.txt", "cx1,0", "cx2,0", line=40)
m("c02-swap-network", ["C02", "C04"], SC, "    return single_qubit_gate_canceller.run(circuit) # type: ignore", "    if stabilizer.num_qubits == 5 and connectivity == \"star\" and lc_class_id == 77:\n        circuit.swap(1, 2)\n        circuit.swap(1, 2)\n    return single_qubit_gate_canceller.run(circuit) # type: ignore")
# ---- C03
m("c03-no-inverse", ["C03"], SC, "    return _get_preparation_circuit_modulo_phase(stabilizer, connectivity).inverse()", "    return _get_preparation_circuit_modulo_phase(stabilizer, connectivity)")
m("c03-sign-dependent", ["C03"], SC, "    return _get_preparation_circuit_modulo_phase(stabilizer, connectivity).inverse()", "    return get_preparation_circuit(stabilizer, connectivity).inverse()")
m("c03-layer-not-inverted", ["C03", "C01"], SC, "    layer_circuit = local_clifford_layer_to_circuit(layer).inverse()", "    layer_circuit = local_clifford_layer_to_circuit(layer)", note="only the order-3 layers (HS / SH) differ from their inverse")
m("c03-layer-in-front", ["C03", "C01"], SC, "    circuit = circuit_info.parse_circuit().compose(layer_circuit)  # type: ignore", "    circuit = circuit_info.parse_circuit().compose(layer_circuit, front=True)  # type: ignore")
# ---- C04
m("c04-cost-column", ["C04", "C17"], "data/stabilizer4-linear.txt", "9:2:2:", "9:3:2:", line=10)
m("c04-depth-column", ["C04", "C17"], "data/stabilizer6-E.txt", None, None, line=300, note="depth column +1")
m("c04-cx-pair-appended", ["C04"], SC, "    return single_qubit_gate_canceller.run(circuit) # type: ignore", "    if lc_class_id % 7 == 3:\n        circuit.cx(0, 1)\n        circuit.cx(0, 1)\n    return single_qubit_gate_canceller.run(circuit) # type: ignore")
# ---- C05
m("c05-longer-line", ["C05"], "data/stabilizer3-linear.txt", None, None, line=4, note="append cz0,1 cz0,1 and cost/depth +2")
m("c05-product-class-cz", ["C05"], "data/stabilizer5-T.txt", None, None, line=0, note="class 0 with redundant CZ")
# ---- C06
m("c06-line6-canonical-order", ["C06"], "lc_classes.py", "            if pair1[0] > pair2[0]:\n                pair1, pair2 = pair2, pair1\n                middle_qubits.reverse()", "            if pair1[0] > pair2[0]:\n                pair1, pair2 = pair2, pair1", note="middle qubits no longer swapped together with the pairs: some Line6 members are misfiled")
m("c06-from-1122", ["C06", "C19"], "linear_index.py", "    return 3*i + d - c - 1\n", "    return 3*i + d - c - 1 if i != 7 else 3*i + (d - c) % 3\n")
m("c06-rep-graph", ["C06", "C17"], "lc_classes.py", "        if self.type == LCClass6.EntanglementStructure.Pair:\n            graph.add_edge(*self.data.get(2, 0))", "        if self.type == LCClass6.EntanglementStructure.Pair:\n            graph.add_edge(self.data.get(2, 0)[0], (self.data.get(2, 0)[1] + 1) % 6 if self.id() == 9 else self.data.get(2, 0)[1])")
m("c06-entangled-lt", ["C06", "C15"], "stabilizer.py", "                if qubit_pauli != pauli:\n                    return True", "                if qubit_pauli < pauli:\n                    return True")
# ---- C07
m("c07-input-mutated", ["C07"], SC, "    optimized_circuit = _get_preparation_circuit_modulo_phase(Stabilizer(circuit), connectivity)\n    return rotate_stabilizer_into_state(optimized_circuit, circuit, inplace=True)",
  "    optimized_circuit = _get_preparation_circuit_modulo_phase(Stabilizer(circuit), connectivity)\n    if len(circuit.data) > 400:\n        circuit.data = circuit.data[:400] + circuit.data[400:]\n        circuit.metadata = None\n    return rotate_stabilizer_into_state(optimized_circuit, circuit, inplace=True)")
m("c07-no-sign-repair-long", ["C07"], SC, "    return rotate_stabilizer_into_state(optimized_circuit, circuit, inplace=True)", "    if circuit.count_ops().get(\"y\", 0) > 3:\n        return optimized_circuit\n    return rotate_stabilizer_into_state(optimized_circuit, circuit, inplace=True)")
# ---- C08
m("c08-rank-test-removed", ["C08"], "stabilizer.py", "        return rank == self.num_qubits and not np.any(f2.mat_mul(f2.mat_mul(RS.T, symp), RS))", "        return not np.any(f2.mat_mul(f2.mat_mul(RS.T, symp), RS))")
m("c08-allx-supported", ["C08"], "connectivity_support.py", "(num_qubits == 6 and connectivity in [\"all\", \"linear\", \"star\", \"ladder\", \"E\", \"H\", \"Q\"])", "(num_qubits == 6 and connectivity in [\"all\", \"allx\", \"linear\", \"star\", \"ladder\", \"E\", \"H\", \"Q\"])")
m("c08-no-guard", ["C08"], SC, "    if layer is None:\n        raise RuntimeError(\"No circuit could be found. Please validate the input stabilizer.\")\n    layer_circuit = local_clifford_layer_to_circuit(layer).inverse()",
  "    if layer is None:\n        layer = find_local_clifford_layer(stabilizer.R[:, :1], stabilizer.S[:, :1], Graph.decompress(stabilizer.num_qubits, circuit_info.graph_id))\n    if layer is None:\n        raise RuntimeError(\"No circuit could be found. Please validate the input stabilizer.\")\n    layer_circuit = local_clifford_layer_to_circuit(layer).inverse()", note="falls back to a layer that fits the first operator only")
# ---- C09
m("c09-average", ["C09"], "mub_circuits.py", "mub_info.total_cost / info[\"num circuits\"]", "mub_info.total_cost / 2**mub_info.num_qubits")
m("c09-lines-swapped", ["C09"], "data/mub3-linear.txt", None, None, line=2, note="circuits of two bases exchanged")
m("c09-header", ["C09"], "data/mub5-T.txt", None, None, line=0, note="header max cost +1")
# ---- C10 / C12
m("c10-no-reverse", ["C10", "C12"], "tomography.py", "    l.reverse()\n", "")
m("c10-parity-inverted", ["C10", "C12"], "tomography.py", "        if (s & result.bitstring).bit_count() & 1:", "        if not (s & result.bitstring).bit_count() & 1:")
m("c10-sign-test", ["C10", "C12"], "tomography.py", "expectation_value * (1 if z_pauli.phase == 0 else -1)", "expectation_value * (1 if z_pauli.phase == 0 or i == 5 else -1)")
m("c12-phase-kept", ["C12", "C10"], "tomography.py", "            pauli.phase = 0\n", "")
# ---- C11
m("c11-original-indexing", ["C11"], "tomography.py", "key[-1 - index] for index in reversed(qubits)", "key[index] for index in qubits")
m("c11-reembedding-reversed", ["C11"], "tomography.py", "            for index, qubit in enumerate(qubits):\n                new_key[qubit] = key[index]", "            for index, qubit in enumerate(qubits[::-1] if len(qubits) == 3 else qubits):\n                new_key[qubit] = key[index]")
# ---- C13
m("c13-no-copy", ["C13"], "circuit_lookup.py", "    return mubInfo.copy()", "    return mubInfo")
m("c13-memoised-parse", ["C13"], "circuit_lookup.py", "    def parse_circuit(self) -> QuantumCircuit:\n        return parse_circuit(self.num_qubits, self.circuit_string)",
  "    def parse_circuit(self) -> QuantumCircuit:\n        if not hasattr(self, \"_qc\"):\n            self._qc = parse_circuit(self.num_qubits, self.circuit_string)\n        return self._qc")
m("c13-graph-cached", ["C13"], "connectivity_support.py", "    if connectivity == \"all\":\n        return Graph.fully_connected(num_qubits)", "    if connectivity == \"all\":\n        return _all_cache.setdefault(num_qubits, Graph.fully_connected(num_qubits))")
m("c13-class-memo-on-object", ["C13"], "lc_classes.py", "    num_qubits = stabilizer.num_qubits\n    assert 2 <= num_qubits <= 6, \"LC class determination is only supported for up to 6 qubits\"\n    if num_qubits == 2:\n        return determine_lc_class2(stabilizer)",
  "    num_qubits = stabilizer.num_qubits\n    assert 2 <= num_qubits <= 6, \"LC class determination is only supported for up to 6 qubits\"\n    if getattr(stabilizer, \"_lc_memo\", None) is not None:\n        return stabilizer._lc_memo\n    if num_qubits >= 3:\n        stabilizer._lc_memo = {3: determine_lc_class3, 4: determine_lc_class4, 5: determine_lc_class5, 6: determine_lc_class6}[num_qubits](stabilizer)\n        return stabilizer._lc_memo\n    if num_qubits == 2:\n        return determine_lc_class2(stabilizer)")
# ---- C14
m("c14-parser-y", ["C14", "C01"], "stabilizer.py", "                    self.S[col, row] = int(character in \"ZY\")", "                    self.S[col, row] = int(character in \"Z\")")
m("c14-export-chs", ["C14"], "stabilizer.py", "        chs = [\"I\", \"X\", \"Z\", \"Y\"]", "        chs = [\"I\", \"X\", \"Y\", \"Z\"]")
m("c14-circuit-phases", ["C14"], "stabilizer.py", "            self.phases = stabilizer_state.clifford.tableau[self.num_qubits: 2 * self.num_qubits, -1].astype(np.int8).T", "            self.phases = stabilizer_state.clifford.tableau[:self.num_qubits, -1].astype(np.int8).T")
# ---- C15
m("c15-expand-half", ["C15"], "stabilizer.py", "        for i in range(1 << n):\n            for j in range(n):", "        for i in range(1 << n):\n            for j in range(n - 1 if n == 6 else n):")
m("c15-symp-diagonal", ["C15"], "stabilizer.py", "        symp = np.block([[zero, I],\n                         [I,    zero]])\n        return not np.any(f2.mat_mul(f2.mat_mul(RS.T, symp), RS_other))", "        symp = np.block([[I, zero],\n                         [zero, I]])\n        return not np.any(f2.mat_mul(f2.mat_mul(RS.T, symp), RS_other))")
# ---- C16
m("c16-validity-filter", ["C16"], "find_local_clifford_layer.py", "            if c1 ^ c2 == 0:", "            if c1 | c2 == 0:")
m("c16-weight-window", ["C16"], "find_local_clifford_layer.py", "        if sum < n or sum > 2*n: continue", "        if sum < n or sum > n: continue")
m("c16-kernel-truncated", ["C16"], "find_local_clifford_layer.py", "    cc = f2.mat_mul(combinations, np.array(kernel))", "    cc = f2.mat_mul(combinations[:max(1, len(combinations) // 2)], np.array(kernel))")
# ---- C17
m("c17-hs-token", ["C17"], "data/stabilizer6-star.txt", None, None, line=500, note="hs3 token inserted (silently dropped by the parser)")
m("c17-lines-exchanged", ["C17"], "data/stabilizer5-cycle.txt", None, None, line=20, note="two lines exchanged")
m("c17-duplicate-line", ["C17"], "data/stabilizer4-star.txt", None, None, line=17, note="last line duplicated (K+1 lines)")
# ---- C18
m("c18-no-pivot-swap", ["C18"], "f2_algebra.py", "            temp = copy.deepcopy(A[h, :])\n            A[h, :] = A[i, :]\n            A[i, :] = temp", "            temp = copy.deepcopy(A[h, :])\n            A[h, :] = A[i, :]")
m("c18-nullspace-index", ["C18"], "f2_algebra.py", "                vec[j] = A_rref[k, i]", "                vec[j] = A_rref[min(j, A_rref.shape[0] - 1), i]")
m("c18-basis-change-inverse", ["C18"], "f2_algebra.py", "                    M_inv = mat_mul(M_inv, trf_add_row(h, i, m))", "                    M_inv = mat_mul(trf_add_row(h, i, m), M_inv)")
# ---- C19
m("c19-compress-loop", ["C19"], "graph.py", "        for i in range(self.num_vertices - 1):\n            for j in range(i + 1, self.num_vertices):\n                if self.has_edge(i, j):\n                    code |= (1 << index)", "        for i in range(self.num_vertices - 1):\n            for j in range(i + 1, self.num_vertices):\n                if self.has_edge(i, j) and not (n == 6 and index == 14 and code & 1):\n                    code |= (1 << index)", note="last edge bit dropped for some 6-vertex graphs")
m("c19-diagonal", ["C19"], "graph.py", "        self.adjacency_matrix ^= col.T @ col\n        for i in range(self.num_vertices):\n            self.adjacency_matrix[i, i] = 0", "        self.adjacency_matrix ^= col.T @ col\n        for i in range(self.num_vertices - 1):\n            self.adjacency_matrix[i, i] = 0")
m("c19-from-222", ["C19", "C06"], "linear_index.py", "    return 3*(b - 1) + pairs[1][1] - pairs[1][0] - 1", "    return 3*(b - 1) + (pairs[1][1] - pairs[1][0] - 1) % 2 * 1 + (pairs[1][1] - pairs[1][0] - 1) // 2 * 2 if b != 5 else 3*(b - 1) + 2 - (pairs[1][1] - pairs[1][0] - 1)")
