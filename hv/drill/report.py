"""Section 8.4 of DESIGN.md from /verif/seeded/*/meta.json.

  python -m hv.drill.report            print the section
  python -m hv.drill.report --write    splice it into DESIGN.md (between the 8.4 and 8.5 headings)
"""
import json
import os
import sys

from .. import env

HEAD = "### 8.4 The seeded changes and which checks catch them"
NEXT = "### 8.5 Behaviour-preserving changes"


def section():
    root = os.path.join(env.VERIF, "seeded")
    out = [HEAD, "",
           "`caught by` lists every check that was run against the change and fired (quick tier unless noted); `also run, silent` lists "
           "related checks that were run and stayed silent - in every such case the change does not break that check's property (e.g. a "
           "table row replaced by a cheaper circuit on a non-edge breaks C02 but neither C04 nor C05; a memoised circuit that is re-repaired "
           "on every call differs from a fresh interpreter's answer (C13) but still prepares the right state (C01)). `-R2` = second round, "
           "`-R3A/B` = third round, `-R4A/B` = fourth batch (`first contact: no` marks the ones that were missed before the additions of 8.3b / 8.3c). Full details per "
           "change: `seeded/<name>/meta.json` and `notes.md`.", "",
           "| change | breaks | needs, in order to manifest | caught by | also run, silent |", "|---|---|---|---|---|"]
    n = conf = 0
    for name in sorted(os.listdir(root)):
        mp = os.path.join(root, name, "meta.json")
        if not os.path.exists(mp):
            continue
        m = json.load(open(mp))
        n += 1
        conf += bool(m.get("confirmed"))
        caught = sorted({c.split(":")[0] + ("" if v.get("tier", "quick") == "quick" else " (thorough)")
                         for c, v in m["checks"].items() if v.get("caught")})
        missed = sorted({c.split(":")[0] + (" (quick)" if (c.split(":")[0] + ":thorough") in m["checks"] else "")
                         for c, v in m["checks"].items() if not v.get("caught") and v.get("tier", "quick") == "quick"})
        label = name + ("" if m.get("confirmed") else " (not confirmed)")
        if m.get("caught_on_first_contact") is False:
            label += " (first contact: no)"
        out.append("| %s | %s | %s | %s | %s |" % (label, m["property"], m.get("needs_to_manifest", "see notes.md"),
                                                 ", ".join(caught) or "-", ", ".join(missed) or "-"))
    out += ["", "%d changes, %d confirmed." % (n, conf), "", ""]
    return "\n".join(out)


def main():
    sec = section()
    if "--write" in sys.argv:
        path = os.path.join(env.VERIF, "DESIGN.md")
        s = open(path).read()
        a, b = s.index(HEAD), s.index(NEXT)
        open(path, "w").write(s[:a] + sec + s[b:])
        print("DESIGN.md section 8.4 rewritten")
    else:
        print(sec)


if __name__ == "__main__":
    main()
