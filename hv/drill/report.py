"""Markdown summary of /verif/seeded/*/meta.json and of the last drill run (python -m hv.drill.report)."""
import json
import os
import sys

from .. import env


def main():
    root = os.path.join(env.VERIF, "seeded")
    print("| seed | breaks | files changed | needs, in order to manifest | confirmed (demo 0→≠0, 152 tests pass) | caught by |")
    print("|---|---|---|---|---|---|")
    for name in sorted(os.listdir(root)):
        mp = os.path.join(root, name, "meta.json")
        if not os.path.exists(mp):
            continue
        m = json.load(open(mp))
        files = ", ".join(sorted({l.split("|")[0].strip().replace("src/htstabilizer/", "") for l in m.get("files_changed", []) if "|" in l}))
        caught = ", ".join("%s (%s)" % (c.split(":")[0], v.get("tier", "quick")) for c, v in sorted(m.get("checks", {}).items()) if v.get("caught"))
        missed = ", ".join("%s (%s)" % (c.split(":")[0], v.get("tier", "quick")) for c, v in sorted(m.get("checks", {}).items()) if not v.get("caught"))
        ts = m.get("test_suite_with_change", {})
        conf = "yes" if m.get("confirmed") else "NO (%s)" % (ts.get("now_failing_or_missing") or "demo")
        print("| %s | %s | %s | %s | %s | %s%s |" % (name, m.get("property"), files, m.get("needs_to_manifest", "see notes.md"), conf, caught or "-",
                                                (" ; not caught by: " + missed) if missed else ""))
    lr = os.path.join(env.VERIF, "hv", "drill", "last_results.json")
    if os.path.exists(lr) and "--drill" in sys.argv:
        print()
        print("| drill mutant | checks (caught?) |")
        print("|---|---|")
        for r in json.load(open(lr)):
            print("| %s | %s |" % (r["mutant"], ", ".join("%s %s" % (c, "✓" if v["fired"] else "✗") for c, v in r["checks"].items())))


if __name__ == "__main__":
    main()
